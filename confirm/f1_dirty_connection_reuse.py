#!/usr/bin/env python3
"""F1 (C02): a client that opens a transaction and then sends a malformed Close
message makes its pgcat task return early (`(&message).try_into()?`).  The server
connection goes back to bb8 through has_broken(); if has_broken only looks at
`bad`, the next client's statement runs INSIDE the first client's transaction.
usage: f1_dirty_connection_reuse.py <pgcat binary>   -> exit 1 if the defect manifests"""
import sys, time
sys.path.insert(0, __file__.rsplit('/', 1)[0])
from mockpg import *

binary = sys.argv[1]
be = MockBackend(28901)
proc, d = start_pgcat(binary, 28901, 28900, pool_size=1)
try:
    a = Client(28900)
    a.query('BEGIN')
    a.query('UPDATE t SET x = 1 /* client A, uncommitted */')
    a.raw(msg(b'C', b''))          # Close with an empty body: decode error in pgcat
    time.sleep(0.5)
    try:
        a.close()
    except Exception:
        pass
    b = Client(28900)
    b.query('SELECT 1 /* client B */')
    b.close()
    time.sleep(0.3)
    bad = [(cid, q, st) for (cid, kind, q, st) in be.log if kind == 'query' and 'client B' in q and st['txn'] != 'I']
    for e in be.log:
        print('backend log:', e)
    if bad:
        print('DEFECT MANIFESTS: client B statement executed on backend connection %d while it was in transaction state %r left by client A' % (bad[0][0], bad[0][2]['txn']))
        sys.exit(1)
    print('ok: client B ran on a clean connection')
finally:
    proc.kill()
