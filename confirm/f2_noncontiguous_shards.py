#!/usr/bin/env python3
"""F2 (C15): a configuration whose shard ids are not 0..n-1 (here: only shard "1", and "0"+"2") is
accepted, but the pool it yields cannot serve: Address.shard (=1) is compared with / used as an
index into vectors of length n.  usage: f2_noncontiguous_shards.py <pgcat binary>  -> exit 1 if accepted-but-unservable"""
import sys, time
sys.path.insert(0, __file__.rsplit('/', 1)[0])
from mockpg import *
binary = sys.argv[1]
be = MockBackend(28911)
bad = False
for ids, port in ((('1',), 28910), (('0', '2'), 28912)):
    proc, d = start_pgcat(binary, 28911, port, pool_size=2, shard_ids=ids)
    try:
        time.sleep(0.5)
        if proc.poll() is not None:
            print('shard ids %s: configuration rejected at startup (good)' % (ids,))
            continue
        try:
            c = Client(port)
            if len(ids) > 1:
                c.query("SET SHARD TO 1")
            r = c.query('SELECT 1')
            err = [b for t, b in r if t == b'E']
            print('shard ids %s: accepted; reply to SELECT 1: %s' % (ids, 'ERROR ' + err[0].decode('latin1').replace('\0', ' ') if err else 'ok'))
            if err: bad = True
        except Exception as e:
            print('shard ids %s: accepted; client failed: %r' % (ids, e)); bad = True
    finally:
        proc.kill()
if bad:
    print('DEFECT MANIFESTS: accepted configuration cannot be served'); sys.exit(1)
print('ok')
