#!/usr/bin/env python3
"""F7 (C12): a client whose application_name contains a single quote.  At checkout pgcat syncs
tracked parameters with `SET k TO '<v>'` — without escaping the value the statement is a syntax
error (and an injection vector), so the server connection does not get the client's value.
usage: f7_quote_in_parameter.py <pgcat binary>  -> exit 1 if the defect manifests"""
import sys, time
sys.path.insert(0, __file__.rsplit('/', 1)[0])
from mockpg import *
binary = sys.argv[1]
be = MockBackend(28921)
proc, d = start_pgcat(binary, 28921, 28920, pool_size=1)
try:
    c = Client(28920, params={'application_name': "o'k"})
    c.query('SELECT 1 /* tagged */')
    time.sleep(0.2)
    for e in be.log: print('backend log:', e)
    seen = [st['gucs'].get('application_name') for (cid, kind, q, st) in be.log if kind == 'query' and 'tagged' in q]
    print('application_name on the server connection when the client statement ran:', seen)
    if seen != ["o'k"]:
        print("DEFECT MANIFESTS: the server connection does not carry the client's application_name"); sys.exit(1)
    print('ok')
finally:
    proc.kill()
