#!/usr/bin/env python3
"""F9 (C15): a configuration that sets auth_query_user and auth_query_password but no auth_query
(every user has a password) passes Config::validate, yet pool construction calls
AuthPassthrough::from_pool_config, whose guard Pool::is_auth_query_configured checks the password
twice and the query never -> `auth_query.as_ref().unwrap()` panics at startup / reload.
usage: f9_auth_query_without_query.py <pgcat binary>  -> exit 1 if the accepted configuration kills the pooler"""
import sys, time, os
sys.path.insert(0, __file__.rsplit('/', 1)[0])
from mockpg import *
binary = sys.argv[1]
be = MockBackend(28921)
proc, d = start_pgcat(binary, 28921, 28920, pool_size=1, extra_general='auth_query_user = "lookup"\nauth_query_password = "lookup_pw"\n')
try:
    time.sleep(1.0)
    log = open(os.path.join(d, 'pgcat.log')).read()
    if proc.poll() is not None or 'panicked' in log:
        rejected = 'BadConfig' in log or 'Config error' in log or 'auth_query' in log and 'panicked' not in log
        if 'panicked' in log:
            print([l for l in log.splitlines() if 'panicked' in l][0][:300])
            print('DEFECT MANIFESTS: configuration accepted by validate(), pooler panics while building the pool'); sys.exit(1)
        print('configuration rejected at startup (acceptable)'); sys.exit(0)
    c = Client(28920)
    r = c.query('SELECT 1')
    err = [b for t, b in r if t == b'E']
    print('accepted and served: %s' % ('ERROR ' + err[0].decode('latin1') if err else 'ok'))
    if err: sys.exit(1)
finally:
    proc.kill()
print('ok')
