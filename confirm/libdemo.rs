// Demonstrations against the real pgcat library (public API only) of defects that failed
// contract obligations pointed at.  Not part of any registered check.
//   cargo run --offline --example dvconfirm -- <f3|f4a|f4b|...>   exit 0 = behaves as the property demands
use pgcat::messages::simple_query;
use pgcat::query_router::QueryRouter;

fn main() {
    let which = std::env::args().nth(1).unwrap_or_default();
    QueryRouter::setup();
    let mut qr = QueryRouter::new();
    match which.as_str() {
        // C13: SET PRIMARY READS is documented case-insensitive; SHOW must report what SET established
        "f3" => {
            qr.try_execute_command(&simple_query("SET PRIMARY READS TO 'off'"));
            assert!(!qr.primary_reads_enabled());
            let r = qr.try_execute_command(&simple_query("SET PRIMARY READS TO 'ON'"));
            assert!(r.is_some(), "command recognised");
            let shown = qr.try_execute_command(&simple_query("SHOW PRIMARY READS")).unwrap().1;
            println!("after SET PRIMARY READS TO 'ON': SHOW PRIMARY READS = {}", shown);
            if shown != "on" { println!("DEFECT MANIFESTS: acknowledged but ignored"); std::process::exit(1); }
        }
        // C13: numeric arguments of any length must be answered, not crash the client task
        "f4a" => {
            let r = std::panic::catch_unwind(move || { let mut qr = QueryRouter::new(); qr.try_execute_command(&simple_query("SET SHARDING KEY TO '99999999999999999999'")) });
            if r.is_err() { println!("DEFECT MANIFESTS: panic on 20-digit sharding key"); std::process::exit(1); }
            println!("handled: {:?}", r.unwrap());
        }
        "f4b" => {
            let r = std::panic::catch_unwind(move || { let mut qr = QueryRouter::new(); qr.try_execute_command(&simple_query("SET SHARD TO 100000000000000000000")) });
            if r.is_err() { println!("DEFECT MANIFESTS: panic on 21-digit shard number"); std::process::exit(1); }
            println!("handled: {:?}", r.unwrap());
        }
        // C08: different statements must never share a server-side prepared statement
        "f5" => {
            use bytes::{BufMut, BytesMut};
            use pgcat::messages::Parse;
            fn parse_msg(name: &str, query: &str, types: &[i32]) -> BytesMut {
                let mut b = BytesMut::new();
                b.put_u8(b'P');
                b.put_i32((4 + name.len() + 1 + query.len() + 1 + 2 + 4 * types.len()) as i32);
                b.put_slice(name.as_bytes()); b.put_u8(0);
                b.put_slice(query.as_bytes()); b.put_u8(0);
                b.put_i16(types.len() as i16);
                for t in types { b.put_i32(*t); }
                b
            }
            let a = Parse::try_from(&parse_msg("a", "SELECT 1", &[20])).unwrap();
            let b = Parse::try_from(&parse_msg("b", "SELECT 112", &[])).unwrap();
            println!("hash(SELECT 1 / [int8]) = {:x}   hash(SELECT 112 / []) = {:x}", a.get_hash(), b.get_hash());
            if a.get_hash() == b.get_hash() { println!("DEFECT MANIFESTS: two different statements share one cache key (and so one server-side statement)"); std::process::exit(1); }
        }
        // C06: the shard chosen for a bound key must not depend on the other parameters of the Bind
        "f6" => {
            use bytes::{BufMut, BytesMut};
            use pgcat::pool::PoolSettings;
            fn bind(params: &[&[u8]]) -> BytesMut {
                let mut p = BytesMut::from(&b"\0\0"[..]);
                p.put_i16(0); // all parameters in text format
                p.put_i16(params.len() as i16);
                for v in params { p.put_i32(v.len() as i32); p.put_slice(v); }
                p.put_i16(0);
                let mut b = BytesMut::from(&b"B"[..]);
                b.put_i32(p.len() as i32 + 4);
                b.put(p);
                b
            }
            fn router() -> QueryRouter {
                let mut ps = PoolSettings::default();
                ps.automatic_sharding_key = Some("data.id".to_string());
                ps.shards = 3;
                ps.query_parser_enabled = true;
                ps.query_parser_read_write_splitting = true;
                let mut qr = QueryRouter::new();
                qr.update_pool_settings(&ps);
                qr
            }
            let mut a = router();
            a.infer(&a.parse(&simple_query("SELECT * FROM data WHERE id = $1")).unwrap()).unwrap();
            assert!(a.infer_shard_from_bind(&bind(&[b"5"])));
            let want = a.shard();
            println!("key 5 bound as $1 of `WHERE id = $1`: shard {:?}", want);
            let r = std::panic::catch_unwind(|| {
                let mut b = router();
                b.infer(&b.parse(&simple_query("SELECT * FROM data WHERE id = $2 AND name LIKE $1")).unwrap()).unwrap();
                let found = b.infer_shard_from_bind(&bind(&[b"bob%", b"5"]));
                (found, b.shard())
            });
            match r {
                Err(_) => { println!("DEFECT MANIFESTS: panic while reading key 5 bound as $2 after a text parameter"); std::process::exit(1); }
                Ok((found, got)) => {
                    println!("key 5 bound as $2 of `WHERE id = $2 AND name LIKE $1`: found={} shard {:?}", found, got);
                    if !found || got != want { println!("DEFECT MANIFESTS: same key, different routing"); std::process::exit(1); }
                }
            }
        }
        _ => { eprintln!("unknown demo"); std::process::exit(2); }
    }
    println!("ok");
}
