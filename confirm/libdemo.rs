// Demonstrations against the real pgcat library (public API only) of defects that failed
// contract obligations pointed at.  Not part of any registered check.
//   cargo run --offline --example dvconfirm -- <f3|f4a|f4b|...>   exit 0 = behaves as the property demands
use pgcat::messages::simple_query;
use pgcat::query_router::QueryRouter;

fn main() {
    let which = std::env::args().nth(1).unwrap_or_default();
    QueryRouter::setup();
    let mut qr = QueryRouter::new();
    match which.as_str() {
        // C13: SET PRIMARY READS is documented case-insensitive; SHOW must report what SET established
        "f3" => {
            qr.try_execute_command(&simple_query("SET PRIMARY READS TO 'off'"));
            assert!(!qr.primary_reads_enabled());
            let r = qr.try_execute_command(&simple_query("SET PRIMARY READS TO 'ON'"));
            assert!(r.is_some(), "command recognised");
            let shown = qr.try_execute_command(&simple_query("SHOW PRIMARY READS")).unwrap().1;
            println!("after SET PRIMARY READS TO 'ON': SHOW PRIMARY READS = {}", shown);
            if shown != "on" { println!("DEFECT MANIFESTS: acknowledged but ignored"); std::process::exit(1); }
        }
        // C13: numeric arguments of any length must be answered, not crash the client task
        "f4a" => {
            let r = std::panic::catch_unwind(move || { let mut qr = QueryRouter::new(); qr.try_execute_command(&simple_query("SET SHARDING KEY TO '99999999999999999999'")) });
            if r.is_err() { println!("DEFECT MANIFESTS: panic on 20-digit sharding key"); std::process::exit(1); }
            println!("handled: {:?}", r.unwrap());
        }
        "f4b" => {
            let r = std::panic::catch_unwind(move || { let mut qr = QueryRouter::new(); qr.try_execute_command(&simple_query("SET SHARD TO 100000000000000000000")) });
            if r.is_err() { println!("DEFECT MANIFESTS: panic on 21-digit shard number"); std::process::exit(1); }
            println!("handled: {:?}", r.unwrap());
        }
        // C08: different statements must never share a server-side prepared statement
        "f5" => {
            use bytes::{BufMut, BytesMut};
            use pgcat::messages::Parse;
            fn parse_msg(name: &str, query: &str, types: &[i32]) -> BytesMut {
                let mut b = BytesMut::new();
                b.put_u8(b'P');
                b.put_i32((4 + name.len() + 1 + query.len() + 1 + 2 + 4 * types.len()) as i32);
                b.put_slice(name.as_bytes()); b.put_u8(0);
                b.put_slice(query.as_bytes()); b.put_u8(0);
                b.put_i16(types.len() as i16);
                for t in types { b.put_i32(*t); }
                b
            }
            let a = Parse::try_from(&parse_msg("a", "SELECT 1", &[20])).unwrap();
            let b = Parse::try_from(&parse_msg("b", "SELECT 112", &[])).unwrap();
            println!("hash(SELECT 1 / [int8]) = {:x}   hash(SELECT 112 / []) = {:x}", a.get_hash(), b.get_hash());
            if a.get_hash() == b.get_hash() { println!("DEFECT MANIFESTS: two different statements share one cache key (and so one server-side statement)"); std::process::exit(1); }
        }
        _ => { eprintln!("unknown demo"); std::process::exit(2); }
    }
    println!("ok");
}
