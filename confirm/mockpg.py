#!/usr/bin/env python3
"""Minimal scriptable PostgreSQL backend + client helpers used to confirm, against
the real pgcat binary, defects that a failed contract obligation points at.
Not part of any registered check."""
import socket, struct, threading, time, os, subprocess, sys, tempfile, json

def msg(code, body=b''):
    return code + struct.pack('!i', len(body) + 4) + body

def cstr(s):
    return s.encode() + b'\0'

class MockBackend:
    """Accepts connections; per connection keeps txn state; logs every simple query it receives."""
    def __init__(self, port):
        self.port = port
        self.log = []          # (conn_id, kind, payload, state_before)
        self.nconn = 0
        self.lock = threading.Lock()
        self.sock = socket.socket()
        self.sock.setsockopt(socket.SOL_SOCKET, socket.SO_REUSEADDR, 1)
        self.sock.bind(('127.0.0.1', port))
        self.sock.listen(16)
        threading.Thread(target=self._accept, daemon=True).start()

    def _accept(self):
        while True:
            try:
                c, _ = self.sock.accept()
            except OSError:
                return
            with self.lock:
                self.nconn += 1
                cid = self.nconn
            threading.Thread(target=self._serve, args=(c, cid), daemon=True).start()

    def _recvn(self, c, n):
        b = b''
        while len(b) < n:
            x = c.recv(n - len(b))
            if not x:
                raise EOFError
            b += x
        return b

    def _serve(self, c, cid):
        try:
            ln = struct.unpack('!i', self._recvn(c, 4))[0]
            body = self._recvn(c, ln - 4)
            code = struct.unpack('!i', body[:4])[0]
            if code == 80877102:   # cancel
                self.log.append((cid, 'cancel', body[4:], None))
                c.close(); return
            out = msg(b'R', struct.pack('!i', 0))
            for k, v in [('server_version', '14.0'), ('client_encoding', 'UTF8'), ('DateStyle', 'ISO, MDY'),
                         ('TimeZone', 'Etc/UTC'), ('standard_conforming_strings', 'on'), ('application_name', 'pgcat'),
                         ('server_encoding', 'UTF8'), ('integer_datetimes', 'on')]:
                out += msg(b'S', cstr(k) + cstr(v))
            out += msg(b'K', struct.pack('!ii', 1000 + cid, 4242))
            out += msg(b'Z', b'I')
            c.sendall(out)
            st = {'txn': 'I', 'gucs': {}, 'copy': False}
            while True:
                t = self._recvn(c, 1)
                ln = struct.unpack('!i', self._recvn(c, 4))[0]
                body = self._recvn(c, ln - 4)
                if t == b'X':
                    self.log.append((cid, 'terminate', b'', dict(st)))
                    c.close(); return
                if t == b'Q':
                    q = body.rstrip(b'\0').decode('utf8', 'replace')
                    self.log.append((cid, 'query', q, dict(st, gucs=dict(st['gucs']))))
                    out = b''
                    for stmt in [s.strip() for s in q.split(';') if s.strip()] or ['']:
                        u = stmt.upper()
                        if u.startswith('BEGIN'):
                            st['txn'] = 'T'; out += msg(b'C', cstr('BEGIN'))
                        elif u.startswith('ROLLBACK') or u.startswith('COMMIT'):
                            st['txn'] = 'I'; out += msg(b'C', cstr(u.split()[0]))
                        elif u.startswith('SET '):
                            # SET k TO 'v'  — parse like PostgreSQL would: a quoted literal with '' escapes
                            rest = stmt[4:]
                            k, _, v = rest.partition(' TO ')
                            v = v.strip()
                            if v.startswith("'"):
                                # scan literal
                                i = 1; val = ''
                                ok = False
                                while i < len(v):
                                    if v[i] == "'":
                                        if i + 1 < len(v) and v[i + 1] == "'":
                                            val += "'"; i += 2; continue
                                        ok = (i == len(v) - 1); break
                                    val += v[i]; i += 1
                                if not ok:
                                    out += msg(b'E', b'SERROR\0C42601\0Msyntax error\0\0')
                                    continue
                                v = val
                            st['gucs'][k.strip()] = v
                            out += msg(b'C', cstr('SET'))
                            if k.strip() in ('application_name', 'client_encoding', 'DateStyle', 'TimeZone', 'standard_conforming_strings'):
                                out += msg(b'S', cstr(k.strip()) + cstr(v))
                        elif u.startswith('RESET') or u.startswith('DEALLOCATE'):
                            if u.startswith('RESET ALL'): st['gucs'] = {}
                            out += msg(b'C', cstr(u.split()[0]))
                        elif stmt == '':
                            out += msg(b'I')
                        else:
                            out += msg(b'T', struct.pack('!h', 1) + cstr('c') + struct.pack('!ihihih', 0, 0, 25, -1, -1, 0))
                            val = ('conn%d' % cid).encode()
                            out += msg(b'D', struct.pack('!hi', 1, len(val)) + val)
                            out += msg(b'C', cstr('SELECT 1'))
                    out += msg(b'Z', st['txn'].encode())
                    c.sendall(out)
                elif t == b'S':
                    c.sendall(msg(b'Z', st['txn'].encode()))
                else:
                    self.log.append((cid, 'msg ' + t.decode(), body, dict(st)))
        except (EOFError, OSError):
            self.log.append((cid, 'closed', b'', None))

class Client:
    def __init__(self, port, user='u', db='db', params=None):
        self.s = socket.create_connection(('127.0.0.1', port))
        body = struct.pack('!i', 196608) + cstr('user') + cstr(user) + cstr('database') + cstr(db)
        for k, v in (params or {}).items():
            body += cstr(k) + cstr(v)
        body += b'\0'
        self.s.sendall(struct.pack('!i', len(body) + 4) + body)
        self.read_until_ready()
    def recvn(self, n):
        b = b''
        while len(b) < n:
            x = self.s.recv(n - len(b))
            if not x: raise EOFError
            b += x
        return b
    def read_msg(self):
        t = self.recvn(1); ln = struct.unpack('!i', self.recvn(4))[0]
        return t, self.recvn(ln - 4)
    def read_until_ready(self):
        out = []
        while True:
            t, b = self.read_msg()
            out.append((t, b))
            if t == b'Z': return out
    def query(self, q):
        self.s.sendall(msg(b'Q', cstr(q)))
        return self.read_until_ready()
    def raw(self, b):
        self.s.sendall(b)
    def close(self):
        try: self.s.close()
        except OSError: pass

def start_pgcat(binary, backend_port, listen_port, pool_size=1, extra_pool='', extra_general='', shard_ids=('0',)):
    cfg = '''
[general]
host = "127.0.0.1"
port = %d
admin_username = "admin"
admin_password = "admin"
log_client_connections = false
worker_threads = 2
%s
[pools.db]
pool_mode = "transaction"
%s
[pools.db.users.0]
username = "u"
password = "p"
pool_size = %d
auth_type = "trust"
%s
''' % (listen_port, extra_general, extra_pool, pool_size, ''.join('[pools.db.shards.%s]\nservers = [["127.0.0.1", %d, "primary"]]\ndatabase = "postgres"\n' % (sid, backend_port) for sid in shard_ids))
    d = tempfile.mkdtemp(prefix='dvconfirm')
    p = os.path.join(d, 'pgcat.toml')
    open(p, 'w').write(cfg)
    log = open(os.path.join(d, 'pgcat.log'), 'w')
    proc = subprocess.Popen([binary, p], stdout=log, stderr=log, env=dict(os.environ, RUST_LOG='info'))
    for _ in range(100):
        try:
            socket.create_connection(('127.0.0.1', listen_port)).close(); break
        except OSError:
            time.sleep(0.1)
    return proc, d
