#!/bin/sh
# usage: run_libdemo.sh <repo-dir> <demo>   (temporarily drops examples/dvconfirm.rs into the repo dir and removes it again)
R=$1; shift
mkdir -p $R/examples
cp "$(dirname "$0")/libdemo.rs" $R/examples/dvconfirm.rs
trap 'rm -f $R/examples/dvconfirm.rs' EXIT
cd $R && CARGO_TARGET_DIR=${CARGO_TARGET_DIR:-/repo/target} cargo run -q --offline --example dvconfirm -- "$@" 2>&1 | grep -v "^warning\|^  \|^$" | tail -8
exit ${PIPESTATUS:-$?}
