"""check driver: ./check <PROPERTY> [--tier quick|thorough]"""
import concurrent.futures as cf
import json
import os
import sys
import time

from . import engine, render
from .engine import ROOT, REPO, BUILD


def load_known():
    """open findings only; format documented in known_findings.txt"""
    p = os.path.join(ROOT, 'known_findings.txt')
    out = []
    if os.path.exists(p):
        for l in open(p):
            l = l.strip()
            if not l.startswith('open:'):
                continue
            head, _, what = l[5:].partition('::')
            d = {'status': 'open', 'what': what.strip(), 'witness_contains': []}
            for tok in head.split():
                if tok.startswith('property='):
                    d['property'] = tok[9:]
                elif tok.startswith('obligation='):
                    d['obligation'] = tok[11:]
                elif tok.startswith('witness='):
                    d['witness_contains'].append(tok[8:].replace('_', ' '))
            out.append(d)
    return out


def prop_meta():
    return json.load(open(os.path.join(ROOT, 'properties_map.json')))


def replay(path):
    """re-run a recorded violation: renders the unit from /repo's current tree and replays the
    counterexample natively (Kani concrete playback); for Verus-only failures re-runs the obligation."""
    if not os.path.exists(path):
        print('no such replay file: ' + path)
        return 2
    rec = json.load(open(path))
    print(json.dumps({k: rec[k] for k in rec if k not in ('counterexample_playback_test',)}, indent=1)[:3000])
    unit_name, rest = rec['obligation'].split('/', 1)
    backend, oid = rest.split('::', 1)
    units = [u for u in engine.load_units() if u['name'] == unit_name]
    if not units:
        return 2
    u = units[0]
    ex = render.Extraction(REPO)
    if backend == 'kani' and rec.get('counterexample_playback_test'):
        bdir = os.path.join(BUILD, 'replay', u['name'] + '_kani')
        engine.write_kani_crate(u, u['kani'], bdir, ex)
        res = engine.native_replay(u, oid, rec['counterexample_playback_test'], bdir)
        print('native replay on the functions extracted from /repo now:', 'FAILS (violation reproduced)' if res['confirmed_natively'] else 'does not fail')
        print(res['output_tail'][-800:])
        return 1 if res['confirmed_natively'] else 0
    print('no concrete counterexample recorded (no-failing-input-found); re-run ./check %s to re-decide the obligation' % rec['property'])
    return 0


def main(argv):
    if len(argv) < 2:
        print('usage: check <PROPERTY-ID> [--tier quick|thorough]')
        return 2
    if argv[1] == '--replay':
        return replay(argv[2] if len(argv) > 2 else '')
    pid = argv[1]
    tier = os.environ.get('VERIF_TIER') or 'quick'
    if '--tier' in argv:
        tier = argv[argv.index('--tier') + 1]
    if tier not in ('quick', 'thorough'):
        tier = 'quick'
    seed = int(os.environ.get('VERIF_SEED', '0') or 0)
    t0 = time.time()
    meta = prop_meta().get(pid)
    if meta is None:
        print('property %s is not claimed (see MANIFEST.json not_applicable)' % pid)
        return 2
    units = engine.load_units()
    ex = render.Extraction(REPO)
    jobs_total = os.cpu_count() or 8
    tasks = []
    for u in units:
        if 'verus' in u and pid in u['verus'].get('properties', []):
            tasks.append(('verus', u, u['verus'], None))
        if 'kani' in u:
            hs = [h for h in u['kani']['harnesses'] if pid in h.get('properties', [])
                  and (h.get('tier', 'quick') == 'quick' or (tier == 'thorough' and h.get('tier') == 'thorough')
                       or os.environ.get('DV_EXPERIMENTAL') == '1')]
            if hs:
                tasks.append(('kani', u, u['kani'], hs))
    nk = max(1, sum(1 for t in tasks if t[0] == 'kani'))
    jobs = max(2, jobs_total // nk)
    results = []
    infos = []

    def run(t):
        kind, u, spec, hs = t
        bdir = os.path.join(BUILD, pid, u['name'] + '_' + kind)
        if kind == 'verus':
            return kind, u, engine.run_verus(u, spec, pid, bdir, ex)
        return kind, u, engine.run_kani(u, spec, hs, pid, bdir, ex, min(jobs, len(hs)), tier)

    with cf.ThreadPoolExecutor(max_workers=max(1, len(tasks))) as pool:
        for kind, u, (obls, info) in pool.map(run, tasks):
            results += obls
            info['unit'] = u['name'] + '/' + kind
            infos.append(info)

    # ---- verdicts
    known = [k for k in load_known() if k.get('property') == pid and k.get('status') == 'open']
    discharged = [o for o in results if o.status == 'discharged']
    failed = [o for o in results if o.status == 'failed']
    undec = [o for o in results if o.status == 'undecided']
    # tie-break: a Verus failure whose contract is proved bit-precisely by a complete Kani harness
    by_verus_logged = []
    for o in list(failed):
        if o.backend == 'verus':
            backers = [k for k in results if k.backend == 'kani' and k.unit == o.unit and o.id in k.backs and k.kind == 'proof']
            if backers and all(k.status == 'discharged' for k in backers):
                failed.remove(o)
                o.status = 'discharged'
                o.detail = 'UNDECIDED-BY-VERUS (%s); contract discharged bit-precisely by Kani harness(es) %s' % (
                    o.detail, ','.join(k.id for k in backers))
                by_verus_logged.append(o)
                discharged.append(o)
    violations = []
    known_hits = []
    for o in failed:
        hit = None
        for k in known:
            if k.get('obligation') == o.name() and all(w in ' '.join(o.failed_checks) for w in k.get('witness_contains', [])):
                hit = k
        if hit:
            known_hits.append((o, hit))
        else:
            violations.append(o)

    os.makedirs(os.path.join(ROOT, 'replays', pid), exist_ok=True)
    for o in violations:
        rp = os.path.join(ROOT, 'replays', pid, o.name().replace('/', '_').replace('::', '__') + '.json')
        rec = {'property': pid, 'obligation': o.name(), 'meaning': o.meaning, 'backend': o.backend,
               'failed_checks': o.failed_checks, 'verifier_output': o.detail, 'repo': engine.repo_state()}
        suffix = ''
        if o.backend == 'kani':
            u = [x for x in units if x['name'] == o.unit][0]
            bdir = os.path.join(BUILD, pid, u['name'] + '_kani')
            test, tail = engine.kani_playback(u, u['kani'], o.id, bdir)
            if test:
                rec['counterexample_playback_test'] = test
                rec['how_to_replay'] = 'append the test to %s/src/lib.rs and run `cargo kani playback -Z concrete-playback -- <test name>` there; the crate contains the functions extracted from /repo' % bdir
                native = engine.native_replay(u, o.id, test, bdir) if hasattr(engine, 'native_replay') else None
                if native is not None:
                    rec['native_replay'] = native
            else:
                rec['counterexample'] = 'kani gave no concrete playback'
                rec['kani_tail'] = tail
                suffix = ' no-failing-input-found'
        else:
            suffix = ' no-failing-input-found'
            rec['note'] = 'Verus gives no counterexample; obligation failed on code extracted from /repo'
        json.dump(rec, open(rp, 'w'), indent=1)
        o.replay = rp
        print('VIOLATION property=%s replay=%s obligation=%s%s' % (pid, rp, o.name(), suffix))
        print('  failed: ' + (o.detail[:600] if o.detail else ''))
    for o, k in known_hits:
        print('KNOWN-FINDING: property=%s %s (obligation %s)' % (pid, k.get('what', ''), o.name()))
    for o in undec:
        print('UNDECIDED property=%s unit=%s obligation=%s reason=%s' % (pid, o.unit, o.id, o.detail[:400]))

    proof_obls = [o for o in results if o.kind == 'proof']
    bounded = [o for o in results if o.kind == 'bounded']
    wall = time.time() - t0
    assumptions = list(meta.get('assumptions', []))
    for u in units:
        if any(o.unit == u['name'] for o in results):
            assumptions += u.get('assumptions', [])
    ev = {
        'property_id': pid, 'tier': tier, 'seed': seed,
        'level': meta.get('level', 'proof'),
        'coverage': {
            'obligations': len(proof_obls),
            'discharged': len([o for o in proof_obls if o.status == 'discharged']),
            'checker_cmd': 'verus <generated>.rs --output-json --time ; cargo kani -Z function-contracts -Z stubbing --harness <h> (generated crate under build/%s/)' % pid,
            'trusted_base': engine.TRUSTED_BASE,
            'explanation': meta.get('explanation') or (
                'Contract-based verification of functions re-extracted from /repo on this run: %d obligations are complete proofs '
                '(Verus, or loop-free / full-domain Kani harnesses) and %d are bounded stand-ins (Kani harnesses over concrete message / '
                'configuration shapes with symbolic contents; bound stated per sample); each sample lists its meaning, back end, '
                'status and time. %s' % (len(proof_obls), len(bounded), meta.get('level_text', ''))),
            'bounded_checks': len(bounded),
            'bounded_passed': len([o for o in bounded if o.status == 'discharged']),
            'bounded_note': 'bounded stand-ins are listed with their bound and are never counted under obligations/discharged',
            'verifier_level_checks': sum(o.checks for o in results),
            'functions_under_contract': sorted(set(ex.fns)),
            'functions_under_contract_note': 'every pgcat function / carved block pasted (verbatim, re-extracted on this run) into the verification files of the units run for this property, callees included; which of them an obligation is about is stated in that obligation\'s meaning under samples — a function listed here is not thereby claimed proved',
            'samples': [o.j() for o in results],
            'units': infos,
            'solver_time_s': round(sum(i.get('smt_s', 0) + i.get('solver_s', 0) for i in infos), 3),
            'undecided': [o.j() for o in undec],
            'undecided_by_verus_but_proved_by_kani': [o.name() for o in by_verus_logged],
            'known_findings_reported': [k.get('what') for _, k in known_hits],
            'extraction': {'repo': engine.repo_state(), 'spans': ex.spans, 'drops': ex.drops},
            'not_decided_parts': meta.get('not_decided', []),
        },
        'assumptions': assumptions,
        'wall_s': round(wall, 2),
        'violations': len(violations),
    }
    if ev['level'] != 'proof':
        c = ev['coverage']
        c['evaluations'] = sum(o.checks for o in results)
        c['distinct_nontrivial'] = len([o for o in results if o.status == 'discharged'])
        c['rule'] = 'one evaluation = one verifier-level check (assertion/overflow/bounds/postcondition) decided symbolically; distinct = obligations discharged'
    # evidence is only ever written from a run against /repo itself; development runs against a scratch
    # worktree (DV_REPO=...) leave their record in the build directory
    evdir = os.path.join(ROOT, 'evidence') if REPO == '/repo' else os.path.join(BUILD, 'evidence_scratch')
    os.makedirs(evdir, exist_ok=True)
    json.dump(ev, open(os.path.join(evdir, pid + '.json'), 'w'), indent=1)
    print('%s tier=%s: %d proof obligations (%d discharged), %d bounded (%d passed), %d undecided, %d violations, %d known; %.1fs' % (
        pid, tier, len(proof_obls), ev['coverage']['discharged'], len(bounded), ev['coverage']['bounded_passed'],
        len(undec), len(violations), len(known_hits), wall))
    if violations:
        return 1
    if undec:
        return 2
    return 0


if __name__ == '__main__':
    sys.exit(main(sys.argv))
