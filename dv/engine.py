"""Contract-verification engine: renders units from /repo, runs Verus and Kani,
maps verifier output to obligations, writes evidence and replay files.

Exit codes of `check`: 0 all obligations discharged (or only known findings),
1 VIOLATION (an obligation failed), 2 UNDECIDED (lost anchor, unsupported
construct, timeout, out of memory, compile error of a generated file).
"""
import concurrent.futures as cf
import json
import os
import re
import resource
import shutil
import subprocess
import sys
import time

from . import render, rsx

ROOT = os.path.dirname(os.path.dirname(os.path.abspath(__file__)))
REPO = os.environ.get('DV_REPO', '/repo')
BUILD = os.environ.get('DV_BUILD') or os.path.join(ROOT, 'build')
UNITS = os.path.join(ROOT, 'units')

TRUSTED_BASE = [
    'Verus 0.2026.09.13 + Z3 (its bundled solver); Kani 0.68.0 + CBMC 6.11 + CaDiCaL',
    'dv extractor (dv/rsx.py, dv/render.py): the rewrites listed under coverage.extraction.drops are semantics-preserving for the stated obligations',
    'de-async is sound only for state reachable through &mut (exclusive ownership across .await)',
    'usize is 64-bit; machine arithmetic is NOT treated as mathematical (Verus checks overflow, Kani is bit-precise)',
    'rustc compiles the extracted text the same way inside pgcat and inside the verification crate',
]


def sh(cmd, cwd=None, timeout=None, env=None, mem_gb=None):
    def pre():
        os.setsid()
        try:
            resource.setrlimit(resource.RLIMIT_STACK, (resource.RLIM_INFINITY, resource.RLIM_INFINITY))
        except Exception:
            pass
        if mem_gb:
            lim = int(mem_gb * (1 << 30))
            resource.setrlimit(resource.RLIMIT_AS, (lim, lim))
    t0 = time.time()
    p = subprocess.Popen(cmd, cwd=cwd, env=env, stdout=subprocess.PIPE, stderr=subprocess.PIPE,
                         preexec_fn=pre, text=True)
    try:
        out, err = p.communicate(timeout=timeout)
        to = False
    except subprocess.TimeoutExpired:
        try:
            os.killpg(p.pid, 9)
        except ProcessLookupError:
            pass
        out, err = p.communicate()
        to = True
    return p.returncode, out, err, time.time() - t0, to


def repo_state():
    try:
        head = subprocess.run(['git', '-C', REPO, 'rev-parse', 'HEAD'], capture_output=True, text=True).stdout.strip()
        dirty = bool(subprocess.run(['git', '-C', REPO, 'status', '--porcelain', '--', 'src'], capture_output=True, text=True).stdout.strip())
    except Exception:
        head, dirty = 'unknown', True
    return {'head': head, 'dirty_src': dirty}


def load_units():
    us = []
    for d in sorted(os.listdir(UNITS)):
        p = os.path.join(UNITS, d, 'unit.json')
        if os.path.exists(p):
            u = json.load(open(p))
            u['dir'] = os.path.join(UNITS, d)
            u['name'] = d
            us.append(u)
    return us


class Obl:
    """one obligation result"""

    def __init__(self, unit, backend, oid, meaning, kind='proof', bound=None):
        self.unit, self.backend, self.id, self.meaning = unit, backend, oid, meaning
        self.kind = kind          # 'proof' | 'bounded'
        self.bound = bound
        self.status = 'undecided'  # discharged | failed | undecided
        self.detail = ''
        self.time_s = 0.0
        self.checks = 0           # number of verifier-level checks under this obligation
        self.failed_checks = []
        self.backs = []
        self.replay = None

    def name(self):
        return '%s/%s::%s' % (self.unit, self.backend, self.id)

    def j(self):
        d = {'obligation': self.name(), 'meaning': self.meaning, 'kind': self.kind, 'status': self.status,
             'backend': self.backend, 'time_s': round(self.time_s, 3), 'verifier_checks': self.checks}
        if self.bound:
            d['bound'] = self.bound
        if self.detail:
            d['detail'] = self.detail[:2000]
        if self.failed_checks:
            d['failed_checks'] = self.failed_checks[:10]
        return d


# ------------------------------------------------------------------ Verus

def _render(unit, tmpl, ex):
    text = open(os.path.join(unit['dir'], tmpl)).read().replace('@REPO@', REPO)
    return render.render(text, REPO, ex)


def _is_json(l):
    try:
        json.loads(l)
        return True
    except Exception:
        return False


def run_verus(unit, spec, pid, bdir, ex):
    """spec: unit['verus'] = {template, obligations:{fn: meaning}, properties:[..]}"""
    obls = {}
    for fn, meaning in spec['obligations'].items():
        o = Obl(unit['name'], 'verus', fn, meaning)
        o.backs = []
        obls[fn] = o
    try:
        text = _render(unit, spec['template'], ex)
    except (rsx.LostAnchor, rsx.Unsupported) as e:
        for o in obls.values():
            o.detail = 'extraction: %s' % e
        return list(obls.values()), {'smt_s': 0, 'wall_s': 0, 'canary': 'not-run'}
    os.makedirs(bdir, exist_ok=True)
    modname = 'dv_' + unit['name']
    f = os.path.join(bdir, modname + '.rs')
    open(f, 'w').write(text)
    rounds = 0
    while True:
        rc, out, err, wall, to = sh(['verus', f, '--output-json', '--time', '--error-format=json'] + spec.get('flags', []),
                                    cwd=bdir, timeout=spec.get('timeout', 300))
        # a refactor may have moved part of an extracted function into a new helper / constant / field:
        # same on-demand extraction as for the Kani crates (retry while it finds something new)
        msgs = ' '.join(json.loads(l).get('message', '') for l in err.splitlines() if l.strip().startswith('{') and '"message"' in l
                        and _is_json(l))
        if rounds < 4 and not to and ('"encountered-vir-error": true' in out or '"encountered-error": true' in out):
            # the Extraction object is shared with the unit's Kani run (which may already have found the same
            # helper): re-render and retry whenever the rendered text changes
            auto_extract(unit, spec, ex, msgs)
            rounds += 1
            try:
                text2 = _render(unit, spec['template'], ex)
            except (rsx.LostAnchor, rsx.Unsupported):
                break
            if text2 != text:
                text = text2
                open(f, 'w').write(text)
                continue
        break
    info = {'wall_s': round(wall, 2), 'smt_s': 0, 'file': f}
    try:
        d = json.loads(out)
    except Exception:
        d = None
    diags = []
    for l in err.splitlines():
        l = l.strip()
        if l.startswith('{'):
            try:
                diags.append(json.loads(l))
            except Exception:
                pass
    if to or d is None:
        for o in obls.values():
            o.detail = 'verus timeout' if to else 'verus produced no JSON: ' + err[-500:]
        return list(obls.values()), info
    vr = d['verification-results']
    info['verified'] = vr.get('verified', 0)
    info['errors'] = vr.get('errors', 0)
    lines = text.split('\n')
    if vr.get('encountered-vir-error') or (vr.get('encountered-error') and vr.get('errors', 0) == 0):
        # compile / unsupported-construct error: undecided
        msg = '; '.join('%s (line %s: %s)' % (x.get('message'), (x['spans'][0]['line_start'] if x.get('spans') else '?'),
                                               (lines[x['spans'][0]['line_start'] - 1].strip() if x.get('spans') else ''))
                        for x in diags if x.get('level') == 'error')[:1500]
        for o in obls.values():
            o.detail = 'generated file rejected by verus (unsupported construct or compile error): ' + msg
        return list(obls.values()), info
    fb = {}
    smt = d['times-ms']['smt']
    info['smt_s'] = smt['total'] / 1000.0
    for mod in smt.get('smt-run-module-times', []):
        for x in mod.get('function-breakdown', []):
            fb[x['function'].split('::', 1)[1]] = x
    # map error diagnostics to enclosing fn
    fn_of_line = {}
    cur = None
    for i, l in enumerate(lines, 1):
        mo = re.match(r'\s*(?:#\[[^\]]*\]\s*)*(?:pub\s+)?(?:proof\s+|exec\s+)?fn\s+([A-Za-z_0-9]+)', l)
        if mo and 'spec fn' not in l:
            cur = mo.group(1)
        fn_of_line[i] = cur
    errs_by_fn = {}
    for x in diags:
        if x.get('level') != 'error' or not x.get('spans'):
            continue
        prim = [s for s in x['spans'] if s.get('is_primary')] or x['spans']
        # the function being verified is the one containing the non-contract span if any
        owner = None
        for s in x['spans']:
            owner = owner or fn_of_line.get(s['line_start'])
        for s in x['spans']:
            if s.get('label') and 'at the end of the function body' in s['label'] or (s.get('label') or '').startswith('at this'):
                owner = fn_of_line.get(s['line_start']) or owner
        desc = '%s: `%s` (generated line %d)' % (x['message'], lines[prim[0]['line_start'] - 1].strip(), prim[0]['line_start'])
        errs_by_fn.setdefault(owner, []).append(desc)
    for fn, o in obls.items():
        short = fn
        x = fb.get(fn)
        if x is None:
            # try suffix match
            c = [k for k in fb if k.endswith('::' + fn) or k == fn]
            x = fb[c[0]] if len(c) == 1 else None
        if x is None:
            o.detail = 'no verification result for this function (expected obligation missing)'
            continue
        o.time_s = x['time-micros'] / 1e6
        o.checks = 1
        if x['success']:
            o.status = 'discharged'
        else:
            o.status = 'failed'
            key = fn.split('::')[-1]
            o.failed_checks = errs_by_fn.get(key, []) or ['verus reported failure without span']
            o.detail = '; '.join(o.failed_checks)
            if any('rlimit' in c.lower() or 'resource limit' in c.lower() for c in o.failed_checks):
                o.status = 'undecided'
    # vacuity canary: assumed contracts must not be inconsistent
    canary = text.replace('} // verus!', 'proof fn dv_canary() ensures false {}\n} // verus!')
    fc = os.path.join(bdir, modname + '_canary.rs')
    open(fc, 'w').write(canary)
    rc2, out2, err2, wall2, to2 = sh(['verus', fc, '--output-json', '--verify-function', 'dv_canary', '--verify-root'], cwd=bdir, timeout=120)
    try:
        d2 = json.loads(out2)['verification-results']
        info['canary'] = 'rejected (good)' if d2['errors'] >= 1 else 'ACCEPTED (assumptions inconsistent)'
        if d2['errors'] < 1 and not d2.get('encountered-vir-error'):
            for o in obls.values():
                o.status = 'undecided'
                o.detail = 'vacuity canary `ensures false` was accepted: assumed contracts are inconsistent'
    except Exception:
        info['canary'] = 'canary run produced no JSON'
    info['wall_s'] = round(wall + wall2, 2)
    return list(obls.values()), info


# ------------------------------------------------------------------ Kani

def lock_versions():
    vers = {}
    try:
        txt = open(os.path.join(REPO, 'Cargo.lock')).read()
        for mo in re.finditer(r'name = "([^"]+)"\nversion = "([^"]+)"', txt):
            vers.setdefault(mo.group(1), mo.group(2))
    except Exception:
        pass
    return vers


def write_kani_crate(unit, spec, bdir, ex):
    text = _render(unit, spec['template'], ex)
    os.makedirs(os.path.join(bdir, 'src'), exist_ok=True)
    os.makedirs(os.path.join(bdir, '.cargo'), exist_ok=True)
    vers = lock_versions()
    deps = ''
    for dname in spec.get('deps', []):
        deps += '%s = "=%s"\n' % (dname, vers.get(dname, '*'))
    cargo = ('[package]\nname = "dvk"\nversion = "0.1.0"\nedition = "2021"\n\n[dependencies]\n%s\n[workspace]\n\n'
             '[lints.rust]\nunexpected_cfgs = { level = "allow" }\n' % deps)
    _write_if_changed(os.path.join(bdir, 'Cargo.toml'), cargo)
    _write_if_changed(os.path.join(bdir, '.cargo', 'config.toml'), '[net]\noffline = true\n')
    if not os.path.exists(os.path.join(bdir, 'Cargo.lock')) and os.path.exists(os.path.join(REPO, 'Cargo.lock')) and spec.get('deps'):
        shutil.copy(os.path.join(REPO, 'Cargo.lock'), os.path.join(bdir, 'Cargo.lock'))
    _write_if_changed(os.path.join(bdir, 'src', 'lib.rs'), text)
    for extra in spec.get('extra_files', []):
        _write_if_changed(os.path.join(bdir, 'src', os.path.basename(extra)),
                          open(os.path.join(ROOT, extra)).read())
    return text


def auto_extract(unit, spec, ex, compiler_output):
    """A refactor may move part of an extracted function into a new helper.  When the generated crate
    fails to compile with `no method named X` / `cannot find function X`, look X up in the impl blocks
    the template declares //@autofns slots for and paste it verbatim.  Returns True if anything was added."""
    if not getattr(ex, 'real_error', False) and re.search(
            r'interpreted as an associated constant, not a new binding|expected tuple struct or tuple variant, found associated function `Error::', compiler_output):
        ex.real_error = True
        return True
    names = set(re.findall(r'no method named `(\w+)` found', compiler_output))
    names |= set(re.findall(r'no function or associated item named `(\w+)` found', compiler_output))
    names |= set(re.findall(r'cannot find function `(\w+)` in this scope', compiler_output))
    values = set(re.findall(r'cannot find value `(\w+)` in this scope', compiler_output))
    values |= set(re.findall(r'cannot find type `(\w+)` in this scope', compiler_output))
    fields = re.findall(r'no field `(\w+)` on type `(?:&(?:mut )?)*(\w+)', compiler_output)
    added_field = False
    for f, sname in fields:
        if f not in ex.auto_fields.get(sname, []):
            ex.auto_fields.setdefault(sname, []).append(f)
            added_field = True
    if not names and not values:
        return added_field
    tmpl = open(os.path.join(unit['dir'], spec['template'])).read()
    added = False
    for mo in re.finditer(r'^\s*//@autosemi\s+(.*)$', tmpl, re.M):
        a = render._args(mo.group(1))
        key = (a['file'], '#semi')
        try:
            src = rsx.Src.load(REPO + '/' + a['file'])
        except Exception:
            continue
        for nm in sorted(values):
            if nm in ex.auto.get(key, []):
                continue
            for k2 in ('const', 'static', 'type'):
                try:
                    src.semi_item(k2, nm)
                except rsx.LostAnchor:
                    continue
                ex.auto.setdefault(key, []).append(nm)
                added = True
                break
    for mo in re.finditer(r'^\s*//@autofns\s+(.*)$', tmpl, re.M):
        a = render._args(mo.group(1))
        key = (a['file'], a.get('impl'))
        try:
            src = rsx.Src.load(REPO + '/' + a['file'])
        except Exception:
            continue
        for nm in sorted(names):
            if nm in ex.auto.get(key, []):
                continue
            try:
                src.fn_item(nm, a.get('impl'))
            except (rsx.LostAnchor, rsx.Unsupported):
                continue
            ex.auto.setdefault(key, []).append(nm)
            added = True
    return added or added_field


def _write_if_changed(p, s):
    if os.path.exists(p) and open(p).read() == s:
        return
    open(p, 'w').write(s)


KANI_BASE = ['cargo', 'kani', '-Z', 'function-contracts', '-Z', 'stubbing', '-Z', 'unstable-options']


def run_kani(unit, spec, harnesses, pid, bdir, ex, jobs, tier):
    obls = {}
    for h in harnesses:
        o = Obl(unit['name'], 'kani', h['name'], h['meaning'], 'proof' if h.get('complete') else 'bounded', h.get('bound'))
        o.backs = h.get('backs', [])
        obls[h['name']] = o
    info = {'wall_s': 0, 'solver_s': 0}
    if not harnesses:
        return [], info
    try:
        text = write_kani_crate(unit, spec, bdir, ex)
    except (rsx.LostAnchor, rsx.Unsupported) as e:
        for o in obls.values():
            o.detail = 'extraction: %s' % e
        return list(obls.values()), info
    env = dict(os.environ)
    env['CARGO_NET_OFFLINE'] = 'true'
    env.pop('RUSTUP_TOOLCHAIN', None)
    resj = os.path.join(bdir, 'kani_result.json')
    if os.path.exists(resj):
        os.remove(resj)
    tmo = max(h.get('timeout_s', spec.get('timeout_s', 600)) for h in harnesses)
    cmd = KANI_BASE + ['--harness-timeout', str(tmo), '-j', str(jobs), '--output-format', 'terse',
                       '--export-json', resj, '--exact'] + spec.get('kani_flags', [])
    for h in harnesses:
        cmd += ['--harness', 'proofs::' + h['name']]
    rc, out, err, wall, to = sh(cmd, cwd=bdir, env=env, timeout=tmo * 2 + 600, mem_gb=spec.get('mem_gb', 14))
    rounds = 0
    while not os.path.exists(resj) and not to and rounds < 4 and auto_extract(unit, spec, ex, out + err):
        rounds += 1
        try:
            text = write_kani_crate(unit, spec, bdir, ex)
        except (rsx.LostAnchor, rsx.Unsupported):
            break
        rc, out, err, wall2, to = sh(cmd, cwd=bdir, env=env, timeout=tmo * 2 + 600, mem_gb=spec.get('mem_gb', 14))
        wall += wall2
    info['wall_s'] = round(wall, 2)
    info['cmd'] = ' '.join(cmd)
    open(os.path.join(bdir, 'kani_stdout.log'), 'w').write(out + '\n---- stderr ----\n' + err)
    lines = text.split('\n')
    if not os.path.exists(resj):
        # compile error of generated crate or crash
        m = re.findall(r'^(error(?:\[E\d+\])?: .*)$', out + err, re.M)
        msg = 'kani produced no result file (compile error of generated crate or crash): ' + ' | '.join(m[:6])
        if to:
            msg = 'kani wall-clock timeout'
        for o in obls.values():
            o.detail = msg
        return list(obls.values()), info
    d = json.load(open(resj))
    cb = {x['harness_id']: x for x in d.get('cbmc', [])}
    for r in d['verification_results']['results']:
        hn = r['harness_id'].split('::')[-1]
        o = obls.get(hn)
        if o is None:
            continue
        o.time_s = r.get('duration_ms', 0) / 1000.0
        st = (cb.get(r['harness_id']) or {}).get('cbmc_stats') or {}
        info['solver_s'] += st.get('runtime_decision_procedure_s', 0) or 0
        checks = r.get('checks', [])
        o.checks = len(checks)
        failing = [c for c in checks if c['status'] in ('Failure', 'Undetermined')]
        covers = [c for c in checks if c.get('category') == 'cover']
        if r['status'] == 'Success':
            if covers and not all(c['status'] == 'Satisfied' for c in covers):
                o.status = 'undecided'
                o.detail = 'vacuity guard: a cover point is unreachable (harness assumptions exclude everything)'
            elif not covers:
                o.status = 'undecided'
                o.detail = 'vacuity guard: harness has no cover point'
            else:
                o.status = 'discharged'
        else:
            # pgcat has no unsafe code on these paths: a failing allocator-model check inside Kani's
            # C shim (__rust_dealloc size/validity) cannot be a real double free; it is CBMC pointer
            # imprecision.  Such checks are logged and not counted as obligation failures.
            alloc_noise = [c for c in failing if (c.get('function') or '') == '__rust_dealloc']
            failing = [c for c in failing if c not in alloc_noise]
            real = [c for c in failing if c['status'] == 'Failure' and 'unwinding assertion' not in c['description']
                    and c.get('category') != 'unwind']
            if alloc_noise and not failing:
                if covers and all(c['status'] == 'Satisfied' for c in covers):
                    o.status = 'discharged'
                    o.detail = 'ignored %d allocator-model check(s) in __rust_dealloc (verifier imprecision; safe Rust cannot double-free)' % len(alloc_noise)
                    continue
            unw = [c for c in failing if 'unwinding assertion' in c['description'] or c.get('category') == 'unwind']
            unsup = [c for c in failing if c.get('category') in ('unsupported_construct',) or 'not currently supported' in c['description']]
            def fmt(c):
                ln = int(c['location']['line']) if c.get('location') and str(c['location'].get('line', '')).isdigit() else 0
                src = lines[ln - 1].strip() if 0 < ln <= len(lines) else ''
                return '%s [in %s, generated line %s: `%s`]' % (c['description'].replace('\n', ' '), c.get('function'), ln, src[:120])
            if unsup:
                o.status = 'undecided'
                o.detail = 'unsupported construct reached: ' + '; '.join(fmt(c) for c in unsup[:3])
            elif real:
                o.status = 'failed'
                o.failed_checks = [fmt(c) for c in real]
                o.detail = '; '.join(o.failed_checks[:4])
            elif unw:
                o.status = 'undecided'
                o.detail = 'unwinding bound too small: ' + '; '.join(fmt(c) for c in unw[:3])
            else:
                o.status = 'undecided'
                o.detail = 'kani reported %s without a failing check (timeout / out of memory / solver error)' % r['status']
    for o in obls.values():
        if o.status == 'undecided' and not o.detail:
            o.detail = 'harness missing from kani results (not found in generated crate or timed out)'
    return list(obls.values()), info


def kani_playback(unit, spec, harness, bdir):
    """re-run one failing harness with concrete playback; returns text of the generated test or None"""
    env = dict(os.environ)
    env['CARGO_NET_OFFLINE'] = 'true'
    env.pop('RUSTUP_TOOLCHAIN', None)
    cmd = KANI_BASE + ['-Z', 'concrete-playback', '--concrete-playback=print', '--exact', '--harness', 'proofs::' + harness] + spec.get('kani_flags', [])
    rc, out, err, wall, to = sh(cmd, cwd=bdir, env=env, timeout=spec.get('timeout_s', 600) + 300, mem_gb=spec.get('mem_gb', 14))
    mo = re.search(r'```\n(.*?)```', out, re.S)
    if not mo:
        return None, out[-3000:]
    return mo.group(1), out[-3000:]


def native_replay(unit, harness, test, bdir):
    """run the concrete-playback test natively (no solver) on a copy of the
    generated crate, i.e. on the functions extracted from /repo's working tree."""
    rdir = bdir + '_replay'
    shutil.rmtree(rdir, ignore_errors=True)
    shutil.copytree(bdir, rdir, ignore=shutil.ignore_patterns('target', 'kani_result.json', '*.log'))
    p = os.path.join(rdir, 'src', 'lib.rs')
    s = open(p).read().rstrip()
    i = s.rfind('}')
    body = test[test.find('#[test]'):] if '#[test]' in test else test
    open(p, 'w').write(s[:i] + body + '\n}\n')
    env = dict(os.environ)
    env['CARGO_NET_OFFLINE'] = 'true'
    env.pop('RUSTUP_TOOLCHAIN', None)
    mo = re.search(r'fn (kani_concrete_playback_\w+)', test)
    name = mo.group(1) if mo else 'kani_concrete_playback'
    rc, out, err, wall, to = sh(['cargo', 'kani', 'playback', '-Z', 'concrete-playback', '--', name], cwd=rdir, env=env, timeout=600)
    txt = out + err
    res = {'cmd': 'cd %s && cargo kani playback -Z concrete-playback -- %s' % (rdir, name),
           'confirmed_natively': bool(re.search(r'test result: FAILED', txt)),
           'output_tail': txt[-1500:]}
    shutil.rmtree(os.path.join(rdir, 'target'), ignore_errors=True)
    return res
