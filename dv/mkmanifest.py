"""regenerate MANIFEST.json from properties_map.json (claimed) + not_applicable.json"""
import json, os
ROOT = os.path.dirname(os.path.dirname(os.path.abspath(__file__)))
pm = json.load(open(os.path.join(ROOT, 'properties_map.json')))
na = json.load(open(os.path.join(ROOT, 'not_applicable.json')))
props = [json.loads(l) for l in open(os.path.join(ROOT, 'properties.jsonl'))]
checks = []
for p in props:
    pid = p['id']
    if pid not in pm:
        continue
    m = pm[pid]
    checks.append({
        'property_id': pid,
        'quick_cmd': './check %s --tier quick' % pid,
        'thorough_cmd': './check %s --tier thorough' % pid,
        'evidence_file': '/verif/evidence/%s.json' % pid,
        'replay_cmd_template': './check --replay {path}',
        'engine': 'dv',
        'level_claimed': {'category': m.get('level', 'proof'), 'text': m['level_text'], 'design_ref': m.get('design_ref', 'DESIGN.md §5')},
        'level_note': m['level_note'],
        'technique': m.get('technique', 'contract-based deductive verification: Verus (SMT, unbounded) + Kani/CBMC function harnesses on functions re-extracted from /repo each run'),
    })
nas = [{'property_id': p['id'], 'reason': na[p['id']]} for p in props if p['id'] not in pm]
man = {
    'version': 1,
    'setup_cmd': 'true',
    'hooks': {'guard': 'postgresml_pgcat_verif',
              'enable': 'none needed: every check re-extracts function text from /repo/src on each run; there are no cfg-guarded hooks in /repo',
              'baseline_off_cmd': 'cd /repo && cargo test --workspace --no-fail-fast --offline',
              'source_commits': [], 'add_only': True},
    'engines': [{'name': 'dv', 'path': '/verif/dv', 'serves_properties': sorted(pm.keys()),
                 'kind_free_text': 'contract units (/verif/units/*): templates with hand-written contracts + //@ directives that paste the real functions from /repo; Verus single-file runs and generated Kani crates; obligations mapped to VIOLATION/UNDECIDED'}],
    'checks': checks,
    'not_applicable': nas,
    'notes': 'exit 0 = all obligations discharged; exit 1 + VIOLATION line = an obligation failed on code extracted from /repo; exit 2 + UNDECIDED line = lost anchor / unsupported construct / timeout (never reported as a violation).',
}
json.dump(man, open(os.path.join(ROOT, 'MANIFEST.json'), 'w'), indent=1)
print('claimed', [c['property_id'] for c in checks], 'n/a', len(nas))
