"""Template renderer: a unit's *.rs.in file holds hand-written contracts,
assumed callee contracts and harnesses; every piece of pgcat code is pulled in
from /repo at render time by a //@ directive.

Directives (one per line, arguments shlex-style key=value):

  //@fn file=src/x.rs [impl="regex"] name=f [ret=r] [as=g] [selfty=T] [flags=a,b]
  //@^ <line emitted above the fn (attributes: #[kani::ensures(..)] ...)>
  //@| <line spliced between signature and body (Verus requires/ensures/decreases)>
  //@loop <k>| <line spliced before the body brace of the k-th loop (1-based)>
  //@loopiter <k> <name>   (Verus: the k-th loop, a `for PAT in EXPR`, becomes `for PAT in name: EXPR` — names the
                            ghost iterator so that the invariant can speak about the position; nothing else changes)
  //@item file=.. kind=struct|enum name=N [keep=a,b,c] [flags=..]
  //@semi file=.. kind=const|static|type name=N [flags=..]
  //@carve file=.. [impl=..] fn=f from="regex" to="regex" [flags=..]
  //@autofns file=.. [impl=..] [flags=..]   (slot for helper fns pulled in on demand, see engine.auto_extract)
  //@autosemi file=..                         (slot for module-level const/static items pulled in on demand)
  carve: exclude_to=1 stops before the text matched by `to`

flags: nopub (strip visibility), deasync, droplog (remove log macro statements),
       keeppub.  Default for every directive: nopub.
"""
import re
import shlex

from . import rsx


class Extraction:
    def __init__(self, repo):
        self.repo = repo
        self.spans = []   # dicts: selector, file, line, sha
        self.drops = []   # human-readable list of rewrites applied
        self.fns = []     # functions under contract / extracted
        self.auto = {}    # (file, impl) -> [fn names] pulled in by //@autofns after a 'no method named' compile error
        self.auto_fields = {}  # struct name -> [field names] kept in a projection on demand ('no field X on type S')

    def log_span(self, sel, src, pos, text):
        self.spans.append({'selector': sel, 'file': src.path.replace(self.repo + '/', ''),
                           'line': src.line_of(pos), 'sha256_16': rsx.sha(text)})

    def drop(self, s):
        if s not in self.drops:
            self.drops.append(s)


def _args(s):
    d = {}
    for tok in shlex.split(s):
        if '=' in tok:
            k, v = tok.split('=', 1)
            d[k] = v
        else:
            d[tok] = True
    return d


def _apply_flags(text, flags, ex, what):
    if 'keeppub' not in flags:
        t2 = rsx.strip_pub(text)
        if t2 != text:
            ex.drop('visibility modifiers stripped')
        text = t2
    if 'deasync' in flags:
        t2 = rsx.deasync(text)
        if t2 != text:
            ex.drop('de-async (`async fn`->`fn`, `.await` removed) in ' + what)
        text = t2
    if 'droplog' in flags:
        text, n = rsx.drop_log_macros(text)
        if n:
            ex.drop('%d log macro statement(s) removed in %s' % (n, what))
    return text


def render(template_text, repo, ex):
    lines = template_text.split('\n')
    out = []
    auto_kept = {}
    i = 0
    while i < len(lines):
        ln = lines[i]
        st = ln.strip()
        if not st.startswith('//@'):
            out.append(ln)
            i += 1
            continue
        mo = re.match(r'//@(fn|item|semi|carve|errorcarrier|autofns|autosemi)\s+(.*)$', st)
        if not mo:
            raise rsx.Unsupported('bad directive: ' + st)
        kind, rest = mo.group(1), mo.group(2)
        a = _args(rest)
        above, mid, loops, loopiters = [], [], {}, {}
        i += 1
        while i < len(lines):
            s2 = lines[i].strip()
            if s2.startswith('//@^'):
                above.append(s2[4:].lstrip(' ') if False else lines[i].strip()[4:])
            elif s2.startswith('//@|'):
                mid.append(s2[4:])
            elif re.match(r'//@loopiter\s+(\d+)\s+(\w+)', s2):
                lm = re.match(r'//@loopiter\s+(\d+)\s+(\w+)', s2)
                loopiters[int(lm.group(1))] = lm.group(2)
            elif re.match(r'//@loop\s+(\d+)\|', s2):
                lm = re.match(r'//@loop\s+(\d+)\|(.*)$', s2)
                loops.setdefault(int(lm.group(1)), []).append(lm.group(2))
            else:
                break
            i += 1
        flags = set((a.get('flags') or '').split(',')) - {''}
        src = rsx.Src.load(repo + '/' + a['file'])
        indent = re.match(r'\s*', ln).group(0)
        if kind == 'autosemi':
            # module-level const/static items the extracted code names but the template does not
            for nm in ex.auto.get((a['file'], '#semi'), []):
                for k2 in ('const', 'static', 'type'):
                    try:
                        s0, e0 = src.semi_item(k2, nm)
                    except rsx.LostAnchor:
                        continue
                    text = src.text[s0:e0 + 1]
                    ex.log_span('%s::%s %s (auto-extracted)' % (a['file'], k2, nm), src, s0, text)
                    ex.drop('%s %s auto-extracted (named by extracted code, not in the template)' % (k2, nm))
                    out.append(indent + _apply_flags(text, flags, ex, nm))
                    break
        elif kind == 'autofns':
            # helper functions of the same impl that the extracted functions call but the template does
            # not name (e.g. introduced by a refactor): pasted verbatim, on demand (engine retries after
            # a `no method named X` / `cannot find function X` compile error)
            for nm in ex.auto.get((a['file'], a.get('impl')), []):
                fn = src.fn_item(nm, a.get('impl'))
                sel = '%s::%s::%s (auto-extracted helper)' % (a['file'], a.get('impl', '-'), nm)
                ex.log_span(sel, src, fn.s, fn.text)
                ex.fns.append(sel)
                ex.drop('helper fn %s auto-extracted (called by an extracted function, not named in the template)' % nm)
                out.append(indent + _apply_flags(fn.header, flags, ex, nm) + _apply_flags(fn.body, flags, ex, nm))
        elif kind == 'fn':
            fn = src.fn_item(a['name'], a.get('impl'))
            sel = '%s::%s::%s' % (a['file'], a.get('impl', '-'), a['name'])
            ex.log_span(sel, src, fn.s, fn.text)
            ex.fns.append(sel)
            header, body = fn.header, fn.body
            # loop splices first (positions relative to verbatim body)
            if loops or loopiters:
                pos = rsx.loop_positions(body)
                for k in sorted(set(loops) | set(loopiters), reverse=True):
                    if k > len(pos):
                        raise rsx.LostAnchor('fn %s has %d loops, contract names loop %d' % (a['name'], len(pos), k))
                    p = pos[k - 1]
                    if k in loops:
                        body = body[:p] + '\n' + '\n'.join(loops[k]) + '\n' + body[p:]
                    if k in loopiters:
                        bm = rsx.mask(body[:p])
                        f = [x for x in re.finditer(r'\bfor\b', bm)]
                        if not f:
                            raise rsx.LostAnchor('loop %d of fn %s is not a for loop' % (k, a['name']))
                        hs = f[-1].start()
                        mo_in = re.search(r'\bin\b\s*', bm[hs:])
                        if not mo_in:
                            raise rsx.LostAnchor('loop %d of fn %s: no `in`' % (k, a['name']))
                        q = hs + mo_in.end()
                        body = body[:q] + loopiters[k] + ': ' + body[q:]
                        ex.drop('for-loop iterator named (`for x in %s: expr`) in %s' % (loopiters[k], a['name']))
                ex.drop('loop contract spliced into ' + a['name'])
            if 'ret' in a:
                header = rsx.name_return(header, a['ret'])
            if 'as' in a:
                header = re.sub(r'\bfn\s+' + re.escape(a['name']) + r'\b', 'fn ' + a['as'], header, count=1)
                ex.drop('fn %s emitted as %s' % (a['name'], a['as']))
            if 'selfty' in a:
                T = a['selfty']
                header = re.sub(r'&\s*mut\s+self\b', 'this: &mut ' + T, header)
                header = re.sub(r'&\s*self\b', 'this: &' + T, header)
                header = re.sub(r'(?<![:\w])self\b(?!\s*:)', 'this: ' + T, header)
                header = re.sub(r'\bSelf\b', T, header)
                bm = rsx.mask(body)
                nb = []
                last = 0
                for m2 in re.finditer(r'\b(self|Self)\b', bm):
                    nb.append(body[last:m2.start()])
                    nb.append('this' if m2.group(1) == 'self' else T)
                    last = m2.end()
                nb.append(body[last:])
                body = ''.join(nb)
                ex.drop('trait/impl method %s lifted to a free fn (self -> this: %s)' % (a['name'], T))
            header = _apply_flags(header, flags, ex, a['name'])
            body = _apply_flags(body, flags, ex, a['name'])
            for x in above:
                out.append(indent + x)
            if mid:
                ex.drop('contract clauses spliced between signature and body')
                text = header.rstrip() + '\n' + '\n'.join(indent + '    ' + x for x in mid) + '\n' + indent + body
            else:
                text = header + body
            out.append(indent + text)
        elif kind == 'item':
            s, ob, cb = src.braced_item(a['kind'], a['name'])
            text = src.text[s:cb + 1]
            sel = '%s::%s %s' % (a['file'], a['kind'], a['name'])
            ex.log_span(sel, src, s, text)
            ex.drop('attributes/derives on extracted items dropped (re-declared in the template where needed)')
            if 'keepattrs' not in flags:
                text = rsx.drop_attrs(text)
            if 'keep' in a:
                keep = [k for k in a['keep'].split(',') if k]
                for extra in ex.auto_fields.get(a['name'], []):
                    # a field the extracted code reads but the template does not list (a refactor added it):
                    # kept on demand when the real struct has it; harness struct literals get `f: Default::default()`
                    if extra not in keep:
                        try:
                            rsx.project_struct(text, [extra])
                        except rsx.LostAnchor:
                            continue
                        keep.append(extra)
                        auto_kept.setdefault(a['name'], []).append(extra)
                        ex.drop('field %s of struct %s kept on demand (read by extracted code, not listed in the template); harness values of %s start it at Default::default()' % (extra, a['name'], a['name']))
                text = rsx.project_struct(text, keep)
                ex.drop('struct %s projected to fields %s' % (a['name'], ','.join(keep)))
            text = _apply_flags(text, flags, ex, a['name'])
            for x in above:
                out.append(indent + x)
            # derives are re-declared by the template; the one exception is `Copy`, which changes what the
            # extracted code may do with a value (`.copied()`, moves out of borrows): if the real item derives
            # Copy and the template does not declare it, keep it (a refactor may have added it)
            pre = src.text[:s].rstrip().split('\n')
            derives = ''
            while pre and re.match(r'\s*(#\[|///|//)', pre[-1]):
                derives += pre.pop()
            if re.search(r'derive\([^)]*\bCopy\b', derives) and not any('Copy' in x for x in above) \
                    and not any('Copy' in l for l in out[-3:]):
                out.append(indent + '#[derive(Copy)]')
                ex.drop('derive(Copy) of %s kept from the source' % a['name'])
            out.append(indent + text)
        elif kind == 'semi':
            s, e = src.semi_item(a['kind'], a['name'])
            text = src.text[s:e + 1]
            sel = '%s::%s %s' % (a['file'], a['kind'], a['name'])
            ex.log_span(sel, src, s, text)
            text = _apply_flags(text, flags, ex, a['name'])
            for x in above:
                out.append(indent + x)
            out.append(indent + text)
        elif kind == 'errorcarrier':
            # errors::Error (a 27-variant enum with multi-field payloads) defeats CBMC's constant
            # propagation through Result<_, Error> (DESIGN §2).  It is replaced by a one-byte kind
            # carrier generated from the real enum: same constructor names and arities, payloads dropped.
            st_, ob, cb = src.braced_item('enum', a['name'])
            if getattr(ex, 'real_error', False):
                # fallback (engine retries with it when extracted code pattern-matches on the error in a
                # way the carrier cannot express, e.g. `match &err { Error::StatementTimeout => ..`): the
                # real enum, verbatim.  CBMC may or may not cope; the verdict is then undecided, never wrong.
                text = src.text[st_:cb + 1]
                ex.log_span('%s::enum %s (verbatim, carrier fallback)' % (a['file'], a['name']), src, st_, text)
                ex.drop('enum %s pasted verbatim (error-carrier fallback: extracted code matches on it by pattern)' % a['name'])
                out.append(indent + '#[derive(Debug, PartialEq, Clone)]\n' + indent + rsx.drop_attrs(text))
                continue
            body = src.m[ob + 1:cb]
            ex.log_span('%s::enum %s (variant list only)' % (a['file'], a['name']), src, st_, src.text[st_:cb + 1])
            ex.drop('enum %s replaced by a kind-code carrier generated from its variant list (payloads dropped)' % a['name'])
            vs = []
            depth = 0
            cur = ''
            for ch in body:
                if ch in '([{<':
                    depth += 1
                elif ch in ')]}>':
                    depth -= 1
                if ch == ',' and depth == 0:
                    vs.append(cur.strip())
                    cur = ''
                else:
                    cur += ch
            if cur.strip():
                vs.append(cur.strip())
            gen = ['#[derive(Debug, PartialEq, Clone, Copy)]', 'pub struct %s { pub kind: u8 }' % a['name'],
                   '#[allow(non_snake_case, non_upper_case_globals)]', 'impl %s {' % a['name']]
            for k, v in enumerate(vs):
                mo2 = re.match(r'([A-Za-z_0-9]+)\s*(\((.*)\))?$', v, re.S)
                if not mo2:
                    raise rsx.Unsupported('error variant ' + v)
                nm, args = mo2.group(1), mo2.group(3)
                gen.append('    pub const K_%s: u8 = %d;' % (nm, k))
                if args is None:
                    gen.append('    pub const %s: %s = %s { kind: %d };' % (nm, a['name'], a['name'], k))
                else:
                    tys = [t.strip() for t in args.split(',') if t.strip()]
                    ps = ', '.join('_a%d: %s' % (i2, t) for i2, t in enumerate(tys))
                    gen.append('    pub fn %s(%s) -> %s { %s { kind: %d } }' % (nm, ps, a['name'], a['name'], k))
            gen.append('}')
            out.append('\n'.join(indent + g for g in gen))
        elif kind == 'carve':
            fn = src.fn_item(a['fn'], a.get('impl'))
            text = rsx.carve(fn, a['from'], a['to'], include_to=('exclude_to' not in a))
            sel = '%s::%s::%s[carve %s .. %s]' % (a['file'], a.get('impl', '-'), a['fn'], a['from'], a['to'])
            ex.log_span(sel, src, fn.s, text)
            ex.fns.append(sel)
            ex.drop('block carve of %s (%s .. %s)' % (a['fn'], a['from'], a['to']))
            text = _apply_flags(text, flags, ex, a['fn'])
            out.append(text)
    res = '\n'.join(out)
    for sname, fs in auto_kept.items():
        ins = ''.join('%s: Default::default(), ' % f for f in fs)
        # struct literals `S { field: ...` written by the template (definitions are `struct S {`)
        res = re.sub(r'(?<!struct )(?<!enum )\b' + re.escape(sname) + r'\s*\{(?=\s*[a-z_][A-Za-z0-9_]*\s*:)', lambda mo: mo.group(0) + ' ' + ins, res)
    return res
