"""Lexer-aware extraction of Rust items from /repo's working tree.

Nothing here understands Rust beyond: comments, string/char literals, raw
strings, brace/paren matching.  Items are addressed by selectors (file + impl
header regex + fn name, or kind + name).  A selector that matches 0 or >1 items
raises LostAnchor, which the engine maps to UNDECIDED (exit 2), never to a
violation.

The rewrites implemented here are exactly the ones declared in DESIGN.md §3.3;
each use is logged in Extraction.drops so the evidence can list it.
"""
import hashlib
import re


class LostAnchor(Exception):
    pass


class Unsupported(Exception):
    pass


def lex_spans(src):
    """(kind,start,end) for comments ('c') and string/char literals ('s')."""
    i = 0
    n = len(src)
    out = []
    while i < n:
        c = src[i]
        if src.startswith('//', i):
            j = src.find('\n', i)
            j = n if j < 0 else j
            out.append(('c', i, j))
            i = j
        elif src.startswith('/*', i):
            depth = 1
            j = i + 2
            while j < n and depth:
                if src.startswith('/*', j):
                    depth += 1
                    j += 2
                elif src.startswith('*/', j):
                    depth -= 1
                    j += 2
                else:
                    j += 1
            out.append(('c', i, j))
            i = j
        elif c == '"' or (c == 'b' and src.startswith('b"', i) and not (i > 0 and (src[i - 1].isalnum() or src[i - 1] == '_'))):
            j = i + (2 if c == 'b' else 1)
            while j < n and src[j] != '"':
                j += 2 if src[j] == '\\' else 1
            out.append(('s', i, j + 1))
            i = j + 1
        elif c == 'r' and re.match(r'r#*"', src[i:i + 10]) and not (i > 0 and (src[i - 1].isalnum() or src[i - 1] == '_')):
            m = re.match(r'r(#*)"', src[i:])
            h = m.group(1)
            j = src.find('"' + h, i + len(m.group(0)))
            out.append(('s', i, j + 1 + len(h)))
            i = j + 1 + len(h)
        elif c == "'" or (c == 'b' and src.startswith("b'", i) and not (i > 0 and (src[i - 1].isalnum() or src[i - 1] == '_'))):
            k = i + (1 if c == 'b' else 0)
            m = re.match(r"'(\\x[0-9a-fA-F]{2}|\\u\{[0-9a-fA-F]+\}|\\.|[^\\'])'", src[k:k + 14])
            if m:
                out.append(('s', i, k + m.end()))
                i = k + m.end()
            else:
                i = k + 1  # lifetime
        else:
            i += 1
    return out


def mask(src, keep_strings=False):
    b = list(src)
    for k, s, e in lex_spans(src):
        if keep_strings and k == 's':
            continue
        for t in range(s, e):
            if b[t] != '\n':
                b[t] = ' '
    return ''.join(b)


def match_close(m, i, op='{', cl='}'):
    assert m[i] == op, (m[i - 20:i + 20], op)
    d = 0
    for j in range(i, len(m)):
        if m[j] == op:
            d += 1
        elif m[j] == cl:
            d -= 1
            if d == 0:
                return j
    raise Unsupported('unbalanced ' + op)


def sha(s):
    return hashlib.sha256(s.encode()).hexdigest()[:16]


class Src:
    _cache = {}

    def __init__(self, path):
        self.path = path
        self.text = open(path, encoding='utf-8').read()
        self.m = mask(self.text)

    @classmethod
    def load(cls, path):
        # no caching across runs; within a run the file is read once
        if path not in cls._cache:
            cls._cache[path] = cls(path)
        return cls._cache[path]

    def line_of(self, pos):
        return self.text.count('\n', 0, pos) + 1

    def _uniq(self, rx, lo, hi, what):
        hits = [mo for mo in re.compile(rx, re.M).finditer(self.m, lo, hi)]
        if len(hits) != 1:
            raise LostAnchor('%s: %s matched %d times in %s' % (what, rx, len(hits), self.path))
        return hits[0]

    def impl_ranges(self, header_rx):
        """all impl blocks whose header matches (masked text, must be followed by '{')."""
        out = []
        for mo in re.compile(r'^[ \t]*' + header_rx + r'(?:\s+where\b[^{;]*)?\s*\{', re.M).finditer(self.m):
            ob = mo.end() - 1
            out.append((mo.start(), ob, match_close(self.m, ob)))
        if not out:
            raise LostAnchor('impl: %s matched 0 times in %s' % (header_rx, self.path))
        return out

    def impl_range(self, header_rx):
        r = self.impl_ranges(header_rx)
        if len(r) != 1:
            raise LostAnchor('impl: %s matched %d times in %s' % (header_rx, len(r), self.path))
        return r[0]

    def fn_item(self, name, impl_rx=None, depth0=True):
        rx = r'^[ \t]*((pub(\([a-z:]+\))?\s+)?(const\s+)?(async\s+)?fn\s+' + re.escape(name) + r')\b'
        hits = []
        if impl_rx is None:
            lo, hi = 0, len(self.m)
            # free fn: keep only those at brace depth 0
            hits = [(h, hi) for h in re.compile(rx, re.M).finditer(self.m, lo, hi)
                    if self.m.count('{', 0, h.start()) == self.m.count('}', 0, h.start())]
        else:
            # a type may have several impl blocks with the same header: the fn must be unique among them
            for _, lo, hi in self.impl_ranges(impl_rx):
                for h in re.compile(rx, re.M).finditer(self.m, lo, hi):
                    # depth exactly 1 inside the impl
                    if self.m.count('{', lo, h.start()) - self.m.count('}', lo, h.start()) == 1:
                        hits.append((h, hi))
        if len(hits) != 1:
            raise LostAnchor('fn %s (impl %s) matched %d times in %s' % (name, impl_rx, len(hits), self.path))
        mo, hi = hits[0]
        s = mo.start(1)
        # find the body '{' : first '{' at paren depth 0 after the signature
        i = mo.end()
        pd = 0
        while i < hi + 1:
            ch = self.m[i]
            if ch in '([':
                pd += 1
            elif ch in ')]':
                pd -= 1
            elif ch == '{' and pd == 0:
                break
            elif ch == ';' and pd == 0:
                raise Unsupported('fn %s has no body' % name)
            i += 1
        ob = i
        cb = match_close(self.m, ob)
        return FnItem(self, name, s, ob, cb)

    def braced_item(self, kind, name):
        """struct / enum / impl-less braced item at depth 0."""
        rx = r'^[ \t]*((pub(\([a-z:]+\))?\s+)?' + kind + r'\s+' + re.escape(name) + r')\b[^;{]*\{'
        hits = [h for h in re.compile(rx, re.M).finditer(self.m)
                if self.m.count('{', 0, h.start()) == self.m.count('}', 0, h.start())]
        if len(hits) != 1:
            raise LostAnchor('%s %s matched %d times in %s' % (kind, name, len(hits), self.path))
        mo = hits[0]
        ob = mo.end() - 1
        cb = match_close(self.m, ob)
        return mo.start(1), ob, cb

    def semi_item(self, kind, name):
        """const / static / type alias / tuple struct ending in ';' at depth 0."""
        rx = r'^[ \t]*((pub(\([a-z:]+\))?\s+)?' + kind + r'\s+' + re.escape(name) + r')\b'
        hits = [h for h in re.compile(rx, re.M).finditer(self.m)]
        if len(hits) != 1:
            raise LostAnchor('%s %s matched %d times in %s' % (kind, name, len(hits), self.path))
        mo = hits[0]
        i = mo.end()
        d = 0
        while i < len(self.m):
            ch = self.m[i]
            if ch in '([{':
                d += 1
            elif ch in ')]}':
                d -= 1
            elif ch == ';' and d == 0:
                break
            i += 1
        return mo.start(1), i


class FnItem:
    def __init__(self, src, name, s, ob, cb):
        self.src = src
        self.name = name
        self.s, self.ob, self.cb = s, ob, cb

    @property
    def header(self):
        return self.src.text[self.s:self.ob]

    @property
    def body(self):
        return self.src.text[self.ob:self.cb + 1]

    @property
    def text(self):
        return self.src.text[self.s:self.cb + 1]

    @property
    def line(self):
        return self.src.line_of(self.s)


# ---------------------------------------------------------------- rewrites

def strip_pub(text):
    m = mask(text)
    out = []
    last = 0
    for mo in re.finditer(r'\bpub(\s*\([^)]*\))?\s+', m):
        out.append(text[last:mo.start()])
        last = mo.end()
    out.append(text[last:])
    return ''.join(out)


def drop_attrs(text):
    """remove #[...] attributes and doc comments inside an extracted item."""
    m = mask(text)
    out = []
    last = 0
    for mo in re.finditer(r'#\s*!?\[', m):
        if mo.start() < last:
            continue
        ob = mo.end() - 1
        cb = match_close(m, ob, '[', ']')
        out.append(text[last:mo.start()])
        last = cb + 1
    out.append(text[last:])
    return ''.join(out)


def deasync(text):
    m = mask(text)
    out = []
    last = 0
    for mo in re.finditer(r'\basync\s+(?=fn\b)|\s*\.\s*await\b', m):
        out.append(text[last:mo.start()])
        last = mo.end()
    out.append(text[last:])
    return ''.join(out)


LOG_MACROS = ('trace', 'debug', 'info', 'warn', 'error')


def drop_log_macros(text):
    """Remove `debug!(...);` style statements (format arguments unevaluated).
    Refuses when an argument contains a call other than simple getters."""
    m = mask(text)
    out = []
    last = 0
    n = 0
    for mo in re.finditer(r'\b(' + '|'.join(LOG_MACROS) + r')!\s*\(', m):
        if mo.start() < last:
            continue
        op = mo.end() - 1
        cp = match_close(m, op, '(', ')')
        j = cp + 1
        while j < len(m) and m[j] in ' \t':
            j += 1
        if j < len(m) and m[j] == ';':
            j += 1
        out.append(text[last:mo.start()])
        last = j
        n += 1
    out.append(text[last:])
    return ''.join(out), n


def name_return(header, rname):
    """`fn f(..) -> T` => `fn f(..) -> (r: T)` (Verus needs a named result)."""
    m = mask(header)
    # locate '->' at paren depth 0
    d = 0
    i = 0
    pos = -1
    while i < len(m):
        ch = m[i]
        if ch in '([':
            d += 1
        elif ch in ')]':
            d -= 1
        elif m.startswith('->', i) and d == 0:
            pos = i
            break
        i += 1
    if pos < 0:
        return header  # unit return
    ty = header[pos + 2:]
    w = re.search(r'\bwhere\b', mask(ty))
    tail = ''
    if w:
        tail = ' ' + ty[w.start():]
        ty = ty[:w.start()]
    return header[:pos] + '-> (' + rname + ': ' + ty.strip() + ')' + tail + '\n'


def loop_positions(body):
    """positions (index of the '{' opening the loop body) of each loop keyword
    in source order."""
    m = mask(body)
    res = []
    for mo in re.finditer(r'\b(loop|while|for)\b', m):
        # find the '{' at paren depth 0 following
        i = mo.end()
        d = 0
        while i < len(m):
            ch = m[i]
            if ch in '([':
                d += 1
            elif ch in ')]':
                d -= 1
            elif ch == '{' and d == 0:
                break
            i += 1
        res.append(i)
    return res


def project_struct(text, keep):
    """Keep only the named fields of a braced struct definition (verbatim
    field text); a kept field that is missing is a LostAnchor."""
    m = mask(text)
    ob = m.index('{')
    cb = match_close(m, ob)
    inner = text[ob + 1:cb]
    im = m[ob + 1:cb]
    # split on commas at depth 0
    fields = []
    d = 0
    st = 0
    for i, ch in enumerate(im):
        if ch in '([{<':
            d += 1
        elif ch in ')]}>':
            d -= 1
        elif ch == ',' and d == 0:
            fields.append((st, i))
            st = i + 1
    if im[st:].strip():
        fields.append((st, len(im)))
    got = {}
    for a, b in fields:
        fm = im[a:b]
        mo = re.search(r'(?:pub(?:\s*\([^)]*\))?\s+)?([A-Za-z_][A-Za-z0-9_]*)\s*:', fm)
        if not mo:
            continue
        nm = mo.group(1)
        # verbatim text but without leading doc comments/attributes
        seg = inner[a:b]
        segm = fm
        start = mo.start()
        got[nm] = seg[start:].strip()
    missing = [k for k in keep if k not in got]
    if missing:
        raise LostAnchor('struct projection: field(s) %s not found' % missing)
    lines = ['    %s,' % got[k] for k in keep]
    return text[:ob + 1] + '\n' + '\n'.join(lines) + '\n}'


def carve(fn, from_rx, to_rx, include_to=True):
    """verbatim statements of fn body from the line matching from_rx up to the
    line matching to_rx (first match after from)."""
    body = fn.body
    m = mask(body, keep_strings=True)
    a = [x for x in re.finditer(from_rx, m, re.M)]
    if len(a) != 1:
        raise LostAnchor('carve from %r matched %d times in fn %s' % (from_rx, len(a), fn.name))
    b = [x for x in re.finditer(to_rx, m[a[0].start():], re.M)]
    if not b:
        raise LostAnchor('carve to %r not found in fn %s' % (to_rx, fn.name))
    s = a[0].start()
    e = a[0].start() + (b[0].end() if include_to else b[0].start())
    # a carve never splits an if / else-if / else chain: when the carved text ends with the closing brace of a
    # block and the next token is `else`, the following branches belong to the same statement (a change that
    # appends a branch must stay inside the carved text)
    if include_to:
        mm = mask(body)
        while mm[:e].rstrip().endswith('}'):
            mo = re.match(r'\s*else\b[^{;]*\{', mm[e:])
            if not mo:
                break
            ob = e + mo.end() - 1
            e = match_close(mm, ob) + 1
    # extend to whole lines
    s = body.rfind('\n', 0, s) + 1
    return body[s:e]
