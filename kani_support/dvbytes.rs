// Stand-in for bytes::{BytesMut, Buf, BufMut} (assumed contract of the `bytes` crate:
// a growable byte queue; put_* append big-endian; get_* consume from the front and panic
// when fewer bytes remain; split_to(n) removes and returns the first n bytes).
// Used where CBMC cannot propagate constants through the real crate's shared/realloc
// representation (DESIGN §2).  The real crate is used in the codec units.
#![allow(dead_code, unused)]
use std::ops::{Deref, DerefMut};

#[derive(Clone, Debug, Default)]
pub struct BytesMut { pub v: Vec<u8>, pub off: usize }
pub type Bytes = BytesMut;

impl PartialEq for BytesMut { fn eq(&self, o: &Self) -> bool { self[..] == o[..] } }
impl Eq for BytesMut {}
impl Deref for BytesMut { type Target = [u8]; fn deref(&self) -> &[u8] { &self.v[self.off..] } }
impl DerefMut for BytesMut { fn deref_mut(&mut self) -> &mut [u8] { let o = self.off; &mut self.v[o..] } }
impl AsRef<[u8]> for BytesMut { fn as_ref(&self) -> &[u8] { &self.v[self.off..] } }
impl From<&[u8]> for BytesMut { fn from(s: &[u8]) -> Self { BytesMut { v: s.to_vec(), off: 0 } } }
impl<const N: usize> From<&[u8; N]> for BytesMut { fn from(s: &[u8; N]) -> Self { BytesMut { v: s.to_vec(), off: 0 } } }
impl From<&str> for BytesMut { fn from(s: &str) -> Self { BytesMut { v: s.as_bytes().to_vec(), off: 0 } } }

impl BytesMut {
    pub fn new() -> Self { BytesMut { v: Vec::new(), off: 0 } }
    pub fn with_capacity(n: usize) -> Self { BytesMut { v: Vec::with_capacity(n), off: 0 } }
    pub fn zeroed(n: usize) -> Self { BytesMut { v: vec![0u8; n], off: 0 } }
    pub fn len(&self) -> usize { self.v.len() - self.off }
    pub fn is_empty(&self) -> bool { self.len() == 0 }
    pub fn clear(&mut self) { self.v.clear(); self.off = 0; }
    pub fn extend_from_slice(&mut self, s: &[u8]) { self.v.extend_from_slice(s); }
    pub fn resize(&mut self, n: usize, b: u8) { let o = self.off; self.v.resize(o + n, b); }
    pub fn split_to(&mut self, at: usize) -> BytesMut {
        assert!(at <= self.len(), "split_to out of bounds");
        let r = BytesMut { v: self.v[self.off..self.off + at].to_vec(), off: 0 };
        self.off += at;
        r
    }
    pub fn freeze(self) -> Bytes { self }
    pub fn reserve(&mut self, n: usize) { self.v.reserve(n); }
}

pub trait Buf {
    fn remaining(&self) -> usize;
    fn chunk(&self) -> &[u8];
    fn advance(&mut self, n: usize);
    fn has_remaining(&self) -> bool { self.remaining() > 0 }
    fn get_u8(&mut self) -> u8 { assert!(self.remaining() >= 1); let r = self.chunk()[0]; self.advance(1); r }
    fn get_i16(&mut self) -> i16 { assert!(self.remaining() >= 2); let c = self.chunk(); let r = i16::from_be_bytes([c[0], c[1]]); self.advance(2); r }
    fn get_u16(&mut self) -> u16 { self.get_i16() as u16 }
    fn get_i32(&mut self) -> i32 { assert!(self.remaining() >= 4); let c = self.chunk(); let r = i32::from_be_bytes([c[0], c[1], c[2], c[3]]); self.advance(4); r }
    fn get_u32(&mut self) -> u32 { self.get_i32() as u32 }
    fn get_i64(&mut self) -> i64 { assert!(self.remaining() >= 8); let c = self.chunk(); let r = i64::from_be_bytes([c[0], c[1], c[2], c[3], c[4], c[5], c[6], c[7]]); self.advance(8); r }
    fn get_i8(&mut self) -> i8 { self.get_u8() as i8 }
    fn get_u64(&mut self) -> u64 { self.get_i64() as u64 }
    /// bytes::Buf::get_uint: nbytes (<= 8) big-endian, zero-extended
    fn get_uint(&mut self, nbytes: usize) -> u64 { assert!(nbytes <= 8 && self.remaining() >= nbytes); let mut b = [0u8; 8]; { let c = self.chunk(); if nbytes >= 1 { b[8 - nbytes] = c[0]; } if nbytes >= 2 { b[9 - nbytes] = c[1]; } if nbytes >= 3 { b[10 - nbytes] = c[2]; } if nbytes >= 4 { b[11 - nbytes] = c[3]; } if nbytes >= 5 { b[12 - nbytes] = c[4]; } if nbytes >= 6 { b[13 - nbytes] = c[5]; } if nbytes >= 7 { b[14 - nbytes] = c[6]; } if nbytes >= 8 { b[15 - nbytes] = c[7]; } } self.advance(nbytes); u64::from_be_bytes(b) }
    /// bytes::Buf::get_int: nbytes (<= 8) big-endian, sign-extended
    fn get_int(&mut self, nbytes: usize) -> i64 { let u = self.get_uint(nbytes); if nbytes == 0 || nbytes >= 8 { u as i64 } else { let sh = 64 - 8 * nbytes as u32; ((u << sh) as i64) >> sh } }
    fn get_i16_le(&mut self) -> i16 { self.get_i16().swap_bytes() }
    fn get_u16_le(&mut self) -> u16 { self.get_u16().swap_bytes() }
    fn get_i32_le(&mut self) -> i32 { self.get_i32().swap_bytes() }
    fn get_u32_le(&mut self) -> u32 { self.get_u32().swap_bytes() }
    fn get_i64_le(&mut self) -> i64 { self.get_i64().swap_bytes() }
    fn get_u64_le(&mut self) -> u64 { self.get_u64().swap_bytes() }
    fn copy_to_slice(&mut self, dst: &mut [u8]) { assert!(self.remaining() >= dst.len()); let n = dst.len(); dst.copy_from_slice(&self.chunk()[..n]); self.advance(n); }
}
impl Buf for BytesMut {
    fn remaining(&self) -> usize { self.len() }
    fn chunk(&self) -> &[u8] { &self.v[self.off..] }
    fn advance(&mut self, n: usize) { assert!(n <= self.len(), "cannot advance past `remaining`"); self.off += n; }
}
impl<'a> Buf for std::io::Cursor<&'a BytesMut> {
    fn remaining(&self) -> usize { let l = self.get_ref().len(); let p = self.position() as usize; if p >= l { 0 } else { l - p } }
    fn chunk(&self) -> &[u8] { let p = self.position() as usize; let r: &'a BytesMut = *self.get_ref(); if p >= r.len() { &[] } else { &r[p..] } }
    fn advance(&mut self, n: usize) { assert!(n <= self.remaining()); let p = self.position(); self.set_position(p + n as u64); }
}

/// anything that can be appended with `put`
pub trait PutSrc { fn dv_bytes(&self) -> &[u8]; }
impl PutSrc for &[u8] { fn dv_bytes(&self) -> &[u8] { self } }
impl PutSrc for BytesMut { fn dv_bytes(&self) -> &[u8] { &self[..] } }
impl PutSrc for &BytesMut { fn dv_bytes(&self) -> &[u8] { &self[..] } }
impl<const N: usize> PutSrc for &[u8; N] { fn dv_bytes(&self) -> &[u8] { &self[..] } }

pub trait BufMut {
    fn put_slice(&mut self, s: &[u8]);
    fn put<T: PutSrc>(&mut self, src: T) { self.put_slice(src.dv_bytes()); }
    fn put_u8(&mut self, b: u8) { self.put_slice(&[b]); }
    fn put_i8(&mut self, b: i8) { self.put_slice(&[b as u8]); }
    fn put_i16(&mut self, n: i16) { self.put_slice(&n.to_be_bytes()); }
    fn put_u16(&mut self, n: u16) { self.put_slice(&n.to_be_bytes()); }
    fn put_i32(&mut self, n: i32) { self.put_slice(&n.to_be_bytes()); }
    fn put_u32(&mut self, n: u32) { self.put_slice(&n.to_be_bytes()); }
    fn put_i64(&mut self, n: i64) { self.put_slice(&n.to_be_bytes()); }
}
impl BufMut for BytesMut { fn put_slice(&mut self, s: &[u8]) { self.v.extend_from_slice(s); } }
