// format! support for Kani harnesses.
#![allow(dead_code, unused)]
pub struct FixedW { pub buf: [u8; 160], pub n: usize }
impl std::fmt::Write for FixedW {
    fn write_str(&mut self, s: &str) -> std::fmt::Result {
        let b = s.as_bytes();
        let mut i = 0;
        while i < b.len() { self.buf[self.n + i] = b[i]; i += 1; }
        self.n += b.len();
        Ok(())
    }
}
/// alloc::fmt::format re-implemented over a fixed buffer: the same core::fmt machinery renders the
/// arguments, but into a stack array instead of a growing String (String reallocation is what
/// defeats CBMC's constant propagation).  Outputs longer than 160 bytes fail a bounds check.
/// Use via #[kani::stub(alloc::fmt::format, dvfmt::dv_format_fixed)] where format! builds payload.
pub fn dv_format_fixed(a: std::fmt::Arguments<'_>) -> String {
    let mut w = FixedW { buf: [0; 160], n: 0 };
    let _ = std::fmt::write(&mut w, a);
    unsafe { String::from_utf8_unchecked(w.buf[..w.n].to_vec()) }
}
/// where format! only builds log/error text that no contract looks at
pub fn dv_format_empty(_a: std::fmt::Arguments<'_>) -> String { String::new() }
