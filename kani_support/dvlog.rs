// Log macros as no-ops: format arguments are NOT evaluated (DESIGN §3.3 rewrite 3).
#[macro_export] macro_rules! trace { ($($t:tt)*) => { () }; }
#[macro_export] macro_rules! debug { ($($t:tt)*) => { () }; }
#[macro_export] macro_rules! info { ($($t:tt)*) => { () }; }
#[macro_export] macro_rules! warn { ($($t:tt)*) => { () }; }
#[macro_export] macro_rules! error { ($($t:tt)*) => { () }; }
