// Stand-ins (assumed contracts on dependencies) for types the extracted pgcat
// code names.  Each one is an *assumption* listed in the evidence: the real
// crate is not verified, its finite-map / cache / clock contract is.
#![allow(dead_code, unused)]

/// association-list map with the subset of std::collections::HashMap API pgcat uses.
/// Contract assumed of HashMap: a finite map; insert overwrites; remove deletes exactly the key.
#[derive(Clone, Debug, PartialEq)]
pub struct VecMap<K, V> { pub items: Vec<(K, V)> }
impl<K: PartialEq, V> Default for VecMap<K, V> { fn default() -> Self { VecMap { items: Vec::new() } } }
impl<K: PartialEq, V> VecMap<K, V> {
    pub fn new() -> Self { VecMap { items: Vec::with_capacity(8) } } // no realloc for <= 8 entries (CBMC loses precision across realloc copies)
    pub fn insert(&mut self, k: K, v: V) -> Option<V> {
        let mut i = 0;
        while i < self.items.len() {
            if self.items[i].0 == k {
                let old = std::mem::replace(&mut self.items[i].1, v);
                return Some(old);
            }
            i += 1;
        }
        self.items.push((k, v));
        None
    }
    pub fn get<Q: ?Sized>(&self, k: &Q) -> Option<&V> where K: std::borrow::Borrow<Q>, Q: PartialEq {
        let mut i = 0;
        while i < self.items.len() {
            if self.items[i].0.borrow() == k { return Some(&self.items[i].1); }
            i += 1;
        }
        None
    }
    pub fn contains_key<Q: ?Sized>(&self, k: &Q) -> bool where K: std::borrow::Borrow<Q>, Q: PartialEq { self.get(k).is_some() }
    pub fn remove<Q: ?Sized>(&mut self, k: &Q) -> Option<V> where K: std::borrow::Borrow<Q>, Q: PartialEq {
        let mut i = 0;
        while i < self.items.len() {
            if self.items[i].0.borrow() == k { return Some(self.items.remove(i).1); }
            i += 1;
        }
        None
    }
    pub fn get_mut<Q: ?Sized>(&mut self, k: &Q) -> Option<&mut V> where K: std::borrow::Borrow<Q>, Q: PartialEq {
        let mut i = 0;
        while i < self.items.len() {
            if self.items[i].0.borrow() == k { return Some(&mut self.items[i].1); }
            i += 1;
        }
        None
    }
    /// HashMap::entry, subset: or_default / or_insert / or_insert_with
    pub fn entry(&mut self, k: K) -> VecMapEntry<'_, K, V> { VecMapEntry { m: self, k } }
    pub fn len(&self) -> usize { self.items.len() }
    pub fn is_empty(&self) -> bool { self.items.is_empty() }
    pub fn clear(&mut self) { self.items.clear() }
    pub fn iter(&self) -> impl Iterator<Item = (&K, &V)> { self.items.iter().map(|(k, v)| (k, v)) }
    pub fn keys(&self) -> impl Iterator<Item = &K> { self.items.iter().map(|(k, _)| k) }
    pub fn values(&self) -> impl Iterator<Item = &V> { self.items.iter().map(|(_, v)| v) }
    pub fn values_mut(&mut self) -> impl Iterator<Item = &mut V> { self.items.iter_mut().map(|(_, v)| v) }
}
pub struct VecMapEntry<'a, K, V> { m: &'a mut VecMap<K, V>, k: K }
impl<'a, K: PartialEq, V> VecMapEntry<'a, K, V> {
    pub fn or_insert_with<F: FnOnce() -> V>(self, f: F) -> &'a mut V {
        let mut i = 0;
        while i < self.m.items.len() { if self.m.items[i].0 == self.k { break; } i += 1; }
        if i == self.m.items.len() { self.m.items.push((self.k, f())); }
        &mut self.m.items[i].1
    }
    pub fn or_insert(self, v: V) -> &'a mut V { self.or_insert_with(move || v) }
    pub fn or_default(self) -> &'a mut V where V: Default { self.or_insert_with(V::default) }
}
impl<K: PartialEq, V> IntoIterator for VecMap<K, V> {
    type Item = (K, V);
    type IntoIter = std::vec::IntoIter<(K, V)>;
    fn into_iter(self) -> Self::IntoIter { self.items.into_iter() }
}
impl<'a, K: PartialEq, V> IntoIterator for &'a VecMap<K, V> {
    type Item = (&'a K, &'a V);
    type IntoIter = std::iter::Map<std::slice::Iter<'a, (K, V)>, fn(&'a (K, V)) -> (&'a K, &'a V)>;
    fn into_iter(self) -> Self::IntoIter { fn f<'a, K, V>(p: &'a (K, V)) -> (&'a K, &'a V) { (&p.0, &p.1) } self.items.iter().map(f as fn(&'a (K, V)) -> (&'a K, &'a V)) }
}

/// association-list set (HashSet / BTreeSet stand-in)
#[derive(Clone, Debug, PartialEq, Default)]
pub struct VecSet<T> { pub items: Vec<T> }
impl<T: PartialEq> VecSet<T> {
    pub fn new() -> Self { VecSet { items: Vec::with_capacity(8) } }
    pub fn insert(&mut self, v: T) -> bool {
        let mut i = 0;
        while i < self.items.len() { if self.items[i] == v { return false; } i += 1; }
        self.items.push(v); true
    }
    pub fn contains<Q: ?Sized>(&self, v: &Q) -> bool where T: std::borrow::Borrow<Q>, Q: PartialEq {
        let mut i = 0;
        while i < self.items.len() { if self.items[i].borrow() == v { return true; } i += 1; }
        false
    }
    pub fn len(&self) -> usize { self.items.len() }
    pub fn is_empty(&self) -> bool { self.items.is_empty() }
    pub fn iter(&self) -> std::slice::Iter<'_, T> { self.items.iter() }
    /// BTreeSet::first: the least element
    pub fn first(&self) -> Option<&T> where T: Ord {
        if self.items.is_empty() { return None; }
        let mut j = 0; let mut i = 1;
        while i < self.items.len() { if self.items[i] < self.items[j] { j = i; } i += 1; }
        Some(&self.items[j])
    }
}
impl<T: PartialEq> FromIterator<T> for VecSet<T> {
    fn from_iter<I: IntoIterator<Item = T>>(it: I) -> Self { let mut s = VecSet::new(); for x in it { s.insert(x); } s }
}

/// lru::LruCache stand-in: bounded map with recency stamps (no element is moved on a hit: CBMC
/// loses precision across the memmove of remove+push).
/// Contract assumed of lru 0.12: get/promote mark the entry most-recently-used; push inserts (or
/// replaces and returns the old pair for an existing key) and, when full, replaces and returns the
/// least-recently-used pair; pop removes; clear empties.
#[derive(Clone, Debug)]
pub struct LruCache<K, V> { pub cap: usize, pub items: Vec<(K, V)>, pub stamps: Vec<u64>, pub clock: u64 }
impl<K: PartialEq + Clone, V> LruCache<K, V> {
    pub fn new(cap: std::num::NonZeroUsize) -> Self {
        let c = cap.get();
        let a = if c < 8 { c } else { 8 };
        LruCache { cap: c, items: Vec::with_capacity(a), stamps: Vec::with_capacity(a), clock: 0 }
    }
    fn pos<Q: ?Sized>(&self, k: &Q) -> Option<usize> where K: std::borrow::Borrow<Q>, Q: PartialEq {
        let mut i = 0;
        while i < self.items.len() { if self.items[i].0.borrow() == k { return Some(i); } i += 1; }
        None
    }
    fn touch(&mut self, i: usize) { self.clock += 1; self.stamps[i] = self.clock; }
    pub fn get<Q: ?Sized>(&mut self, k: &Q) -> Option<&V> where K: std::borrow::Borrow<Q>, Q: PartialEq {
        match self.pos(k) { Some(i) => { self.touch(i); Some(&self.items[i].1) } None => None }
    }
    pub fn promote<Q: ?Sized>(&mut self, k: &Q) where K: std::borrow::Borrow<Q>, Q: PartialEq {
        if let Some(i) = self.pos(k) { self.touch(i); }
    }
    pub fn push(&mut self, k: K, v: V) -> Option<(K, V)> {
        if let Some(i) = self.pos(&k) { self.touch(i); return Some(std::mem::replace(&mut self.items[i], (k, v))); }
        if self.items.len() >= self.cap {
            let mut j = 0; let mut i = 1;
            while i < self.items.len() { if self.stamps[i] < self.stamps[j] { j = i; } i += 1; }
            self.touch(j);
            return Some(std::mem::replace(&mut self.items[j], (k, v)));
        }
        self.items.push((k, v)); self.clock += 1; self.stamps.push(self.clock);
        None
    }
    pub fn pop<Q: ?Sized>(&mut self, k: &Q) -> Option<V> where K: std::borrow::Borrow<Q>, Q: PartialEq {
        match self.pos(k) { Some(i) => { self.stamps.swap_remove(i); Some(self.items.swap_remove(i).1) } None => None }
    }
    pub fn clear(&mut self) { self.items.clear(); self.stamps.clear(); }
    pub fn len(&self) -> usize { self.items.len() }
    pub fn contains<Q: ?Sized>(&self, k: &Q) -> bool where K: std::borrow::Borrow<Q>, Q: PartialEq { self.pos(k).is_some() }
}

/// parking_lot::Mutex / RwLock stand-ins: single-threaded cells (Kani has no threads;
/// per-call obligations only, DESIGN §1).
pub struct Mutex<T> { pub v: std::cell::RefCell<T> }
impl<T> Mutex<T> {
    pub fn new(v: T) -> Self { Mutex { v: std::cell::RefCell::new(v) } }
    pub fn lock(&self) -> std::cell::RefMut<'_, T> { self.v.borrow_mut() }
}
pub struct RwLock<T> { pub v: std::cell::RefCell<T> }
impl<T> RwLock<T> {
    pub fn new(v: T) -> Self { RwLock { v: std::cell::RefCell::new(v) } }
    pub fn read(&self) -> std::cell::Ref<'_, T> { self.v.borrow() }
    pub fn write(&self) -> std::cell::RefMut<'_, T> { self.v.borrow_mut() }
}
