#![allow(dead_code, unused_imports)]
use log::{debug, error, info, trace, warn};
#[derive(Debug, PartialEq, Clone)]
pub enum Error { SocketError(String) }

#[derive(Copy, Clone)]
struct CleanupState {
    /// If server connection requires RESET ALL before checkin because of set statement
    needs_cleanup_set: bool,

    /// If server connection requires DEALLOCATE ALL before checkin because of prepare statement
    needs_cleanup_prepare: bool,
}
impl CleanupState {
    fn new() -> Self {
        CleanupState {
            needs_cleanup_set: false,
            needs_cleanup_prepare: false,
        }
    }

    fn needs_cleanup(&self) -> bool {
        self.needs_cleanup_set || self.needs_cleanup_prepare
    }

    fn set_true(&mut self) {
        self.needs_cleanup_set = true;
        self.needs_cleanup_prepare = true;
    }

    fn reset(&mut self) {
        self.needs_cleanup_set = false;
        self.needs_cleanup_prepare = false;
    }
}
impl std::fmt::Display for CleanupState {
    fn fmt(&self, f: &mut std::fmt::Formatter<'_>) -> std::fmt::Result {
        write!(
            f,
            "SET: {}, PREPARE: {}",
            self.needs_cleanup_set, self.needs_cleanup_prepare
        )
    }
}

// harness-side stand-in for lru::LruCache<String, ()> (only clear()/len used)
pub struct LruCache<K, V> { pub items: Vec<(K, V)> }
impl<K, V> LruCache<K, V> { pub fn clear(&mut self) { self.items.clear(); } }

// projection of `pub struct Server` (fields read/written by the extracted fns)
pub struct Server {
    in_transaction: bool,
    in_copy_mode: bool,
    cleanup_state: CleanupState,
    application_name: String,
    cleanup_connections: bool,
    prepared_statement_cache: Option<LruCache<String, ()>>,
    // ghost / stub state
    sent: Vec<String>,
    fail_at: usize,
    status_after: [bool; 2],
}

impl Server {
    // assumed contract for the IO callee
    pub fn query(&mut self, query: &str) -> Result<(), Error> {
        let i = self.sent.len();
        self.sent.push(query.to_string());
        if i == self.fail_at { return Err(Error::SocketError(String::new())); }
        if i < 2 { self.in_transaction = self.status_after[i]; }
        Ok(())
    }
    pub fn checkin_cleanup(&mut self) -> Result<(), Error> {
        // Client disconnected with an open transaction on the server connection.
        // Pgbouncer behavior is to close the server connection but that can cause
        // server connection thrashing if clients repeatedly do this.
        // Instead, we ROLLBACK that transaction before putting the connection back in the pool
        if self.in_transaction() {
            warn!(target: "pgcat::server::cleanup", "Server returned while still in transaction, rolling back transaction");
            self.query("ROLLBACK")?;
        }

        // Client disconnected but it performed session-altering operations such as
        // SET statement_timeout to 1 or create a prepared statement. We clear that
        // to avoid leaking state between clients. For performance reasons we only
        // send `RESET ALL` if we think the session is altered instead of just sending
        // it before each checkin.
        if self.cleanup_state.needs_cleanup() && self.cleanup_connections {
            info!(target: "pgcat::server::cleanup", "Server returned with session state altered, discarding state ({}) for application {}", self.cleanup_state, self.application_name);
            let mut reset_string = String::from("RESET ROLE;");

            if self.cleanup_state.needs_cleanup_set {
                reset_string.push_str("RESET ALL;");
            };

            if self.cleanup_state.needs_cleanup_prepare {
                reset_string.push_str("DEALLOCATE ALL;");
                // Since we deallocated all prepared statements, we need to clear the cache
                if let Some(cache) = &mut self.prepared_statement_cache {
                    cache.clear();
                }
            };

            self.query(&reset_string)?;
            self.cleanup_state.reset();
        }

        if self.in_copy_mode() {
            warn!(target: "pgcat::server::cleanup", "Server returned while still in copy-mode");
        }

        Ok(())
    }
    pub fn in_transaction(&self) -> bool {
        debug!("Server in transaction: {}", self.in_transaction);
        self.in_transaction
    }
    pub fn in_copy_mode(&self) -> bool {
        self.in_copy_mode
    }
}

#[cfg(kani)]
#[kani::proof]
#[kani::unwind(4)]
fn checkin_cleanup_contract() {
    let in_tx: bool = kani::any(); let set: bool = kani::any(); let prep: bool = kani::any();
    let cc: bool = kani::any(); let copy: bool = kani::any(); let has_cache: bool = kani::any();
    let fail_at: usize = kani::any(); kani::assume(fail_at <= 2);
    let mut s = Server { in_transaction: in_tx, in_copy_mode: copy,
        cleanup_state: CleanupState { needs_cleanup_set: set, needs_cleanup_prepare: prep },
        application_name: String::from("app"), cleanup_connections: cc,
        prepared_statement_cache: if has_cache { Some(LruCache { items: vec![(String::from("PGCAT_1"), ())] }) } else { None },
        sent: Vec::new(), fail_at, status_after: [kani::any(), kani::any()] };
    let r = s.checkin_cleanup();
    let mut expect: Vec<String> = Vec::new();
    if in_tx { expect.push(String::from("ROLLBACK")); }
    let rollback_failed = in_tx && fail_at == 0;
    if !rollback_failed && (set || prep) && cc {
        let mut q = String::from("RESET ROLE;");
        if set { q.push_str("RESET ALL;"); }
        if prep { q.push_str("DEALLOCATE ALL;"); }
        expect.push(q);
    }
    assert!(s.sent == expect);
    let failed = fail_at < expect.len();
    assert!(r.is_err() == failed);
    if r.is_ok() && cc { assert!(!s.cleanup_state.needs_cleanup()); }
    if r.is_ok() && prep && cc && has_cache { assert!(s.prepared_statement_cache.as_ref().unwrap().items.is_empty()); }
}
fn main(){}
