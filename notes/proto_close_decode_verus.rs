use vstd::prelude::*;
verus! {
global size_of usize == 8;

// ---------------- assumed contracts: bytes::BytesMut / std::io::Cursor (dependency specs) ----------------
#[verifier::external_body]
pub struct BytesMut { v: Vec<u8> }
impl View for BytesMut { type V = Seq<u8>; uninterp spec fn view(&self) -> Seq<u8>; }

#[verifier::external_body]
pub struct Cursor<'a> { b: &'a BytesMut, pos: usize }
impl<'a> Cursor<'a> {
    pub uninterp spec fn buf(&self) -> Seq<u8>;
    pub uninterp spec fn pos(&self) -> nat;
    pub open spec fn remaining(&self) -> nat { if self.pos() <= self.buf().len() { (self.buf().len() - self.pos()) as nat } else { 0 } }

    #[verifier::external_body]
    pub fn new(b: &'a BytesMut) -> (c: Cursor<'a>) ensures c.buf() == b@, c.pos() == 0 { unimplemented!() }

    #[verifier::external_body]
    pub fn get_u8(&mut self) -> (r: u8)
        requires old(self).remaining() >= 1,
        ensures final(self).buf() == old(self).buf(), final(self).pos() == old(self).pos() + 1, r == old(self).buf()[old(self).pos() as int]
    { unimplemented!() }

    #[verifier::external_body]
    pub fn get_i32(&mut self) -> (r: i32)
        requires old(self).remaining() >= 4,
        ensures final(self).buf() == old(self).buf(), final(self).pos() == old(self).pos() + 4,
    { unimplemented!() }

    #[verifier::external_body]
    pub fn read_string(&mut self) -> (r: Result<String, Error>)
        requires old(self).remaining() >= 1,   // real code: `buf[..buf.len() - 1]` underflows on EOF
        ensures final(self).buf() == old(self).buf(), old(self).pos() < final(self).pos() <= old(self).buf().len(),
    { unimplemented!() }
}

pub enum Error { ParseBytesError(String), Other }

// ---------------- extracted verbatim from /repo/src/messages.rs ----------------
pub struct Close {
    code: char,
    #[allow(dead_code)]
    len: i32,
    close_type: char,
    pub name: String,
}

    fn try_from(bytes: &BytesMut) -> (res: Result<Close, Error>)
        requires bytes@.len() >= 5,
    {
        let mut cursor = Cursor::new(bytes);
        let code = cursor.get_u8() as char;
        let len = cursor.get_i32();
        let close_type = cursor.get_u8() as char;
        let name = cursor.read_string()?;

        Ok(Close {
            code,
            len,
            close_type,
            name,
        })
    }
}
fn main(){}
