#!/usr/bin/env python3
"""Prototype Rust item extractor: lexer-aware brace matching."""
import re, sys

def lex_spans(src):
    """Yield (kind,start,end) for comments/strings/chars so brace matching can skip them."""
    i=0; n=len(src); out=[]
    while i<n:
        c=src[i]
        if src.startswith('//',i):
            j=src.find('\n',i); j=n if j<0 else j
            out.append(('c',i,j)); i=j
        elif src.startswith('/*',i):
            depth=1; j=i+2
            while j<n and depth:
                if src.startswith('/*',j): depth+=1; j+=2
                elif src.startswith('*/',j): depth-=1; j+=2
                else: j+=1
            out.append(('c',i,j)); i=j
        elif c=='"' or (c=='b' and src.startswith('b"',i)):
            j=i+ (2 if c=='b' else 1)
            while j<n and src[j]!='"':
                j+= 2 if src[j]=='\\' else 1
            out.append(('s',i,j+1)); i=j+1
        elif c=='r' and re.match(r'r#*"',src[i:i+10]):
            m=re.match(r'r(#*)"',src[i:]); h=m.group(1)
            j=src.find('"'+h,i+len(m.group(0))); out.append(('s',i,j+1+len(h))); i=j+1+len(h)
        elif c=="'":
            m=re.match(r"'(\\.[^']*|[^\\'])'",src[i:])
            if m: out.append(('s',i,i+m.end())); i+=m.end()
            else: i+=1  # lifetime
        else: i+=1
    return out

def mask(src):
    b=list(src)
    for k,s,e in lex_spans(src):
        for t in range(s,e):
            if b[t] != '\n': b[t]=' '
    return ''.join(b)

def match_brace(m, i):
    assert m[i]=='{'
    d=0
    for j in range(i,len(m)):
        if m[j]=='{': d+=1
        elif m[j]=='}':
            d-=1
            if d==0: return j
    raise ValueError('unbalanced')

def find_block(src, header_re, start=0, end=None):
    """find item whose header matches regex (on masked text); returns (start_of_header_incl_attrs, open_brace, close_brace)"""
    m=mask(src)
    mo=re.compile(header_re).search(m, start, end if end else len(m))
    if not mo: return None
    ob=m.index('{', mo.end()-1) if m[mo.end()-1]!='{' else mo.end()-1
    cb=match_brace(m, ob)
    # extend start backwards over attributes / doc comments
    s=mo.start()
    lines_before=src[:s].split('\n')
    return (s, ob, cb)

def item(src, header_re, start=0, end=None):
    r=find_block(src, header_re, start, end)
    if not r: raise KeyError(header_re)
    s,ob,cb=r
    return src[s:cb+1]

def fn_in_impl(src, impl_re, fn_name):
    r=find_block(src, impl_re)
    if not r: raise KeyError(impl_re)
    s,ob,cb=r
    return item(src, r'(pub(\([a-z]+\))?\s+)?(async\s+)?fn\s+'+re.escape(fn_name)+r'\b', ob, cb)

if __name__=='__main__':
    src=open(sys.argv[1]).read()
    print(item(src, sys.argv[2]))
