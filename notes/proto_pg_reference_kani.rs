#[path = "/repo/src/sharding.rs"]
#[allow(dead_code)]
mod sharding;

fn rot(x: u32, k: u32) -> u32 { (x << k) | (x >> (32 - k)) }

/// independent transcription of hashfn.c hash_bytes_uint32_extended + hashint8extended + hash_combine64
pub fn pg_reference(val: i64, modulus: u64) -> u64 { pg_reference_nomod(val) % modulus }
pub fn pg_reference_nomod(val: i64) -> u64 {
    let seed: u64 = 0x7A5B22367996DCFD;
    let mut lohalf = val as u32;
    let hihalf = ((val as u64) >> 32) as u32;
    lohalf ^= if val >= 0 { hihalf } else { !hihalf };
    let k = lohalf;
    let init: u32 = 0x9e3779b9u32.wrapping_add(4).wrapping_add(3923095);
    let (mut a, mut b, mut c) = (init, init, init);
    a = a.wrapping_add((seed >> 32) as u32);
    b = b.wrapping_add(seed as u32);
    // mix
    a = a.wrapping_sub(c); a ^= rot(c, 4); c = c.wrapping_add(b);
    b = b.wrapping_sub(a); b ^= rot(a, 6); a = a.wrapping_add(c);
    c = c.wrapping_sub(b); c ^= rot(b, 8); b = b.wrapping_add(a);
    a = a.wrapping_sub(c); a ^= rot(c, 16); c = c.wrapping_add(b);
    b = b.wrapping_sub(a); b ^= rot(a, 19); a = a.wrapping_add(c);
    c = c.wrapping_sub(b); c ^= rot(b, 4); b = b.wrapping_add(a);
    a = a.wrapping_add(k);
    // final
    c ^= b; c = c.wrapping_sub(rot(b, 14));
    a ^= c; a = a.wrapping_sub(rot(c, 11));
    b ^= a; b = b.wrapping_sub(rot(a, 25));
    c ^= b; c = c.wrapping_sub(rot(b, 16));
    a ^= c; a = a.wrapping_sub(rot(c, 4));
    b ^= a; b = b.wrapping_sub(rot(a, 14));
    c ^= b; c = c.wrapping_sub(rot(b, 24));
    let _ = a;
    let h = ((b as u64) << 32) | c as u64;
    let row = 0u64 ^ (h.wrapping_add(0x49a0f4dd15e5a8e3).wrapping_add(0u64 << 54).wrapping_add(0u64 >> 7));
    row
}

#[cfg(kani)]
#[kani::proof]
fn shard_matches_pg() {
    let key: i64 = kani::any();
    let n: usize = kani::any();
    kani::assume(n > 0);
    let s = sharding::Sharder::new(n, sharding::ShardingFunction::PgBigintHash);
    assert!(s.shard(key) as u64 == pg_reference(key, n as u64));
}

#[allow(dead_code)]
mod ext;
pub fn ref_hash(val: i64) -> u64 { // same as pg_reference without modulo
    let m = 1u128 << 64; let _ = m;
    pg_reference_nomod(val)
}
#[cfg(kani)]
#[kani::proof]
fn hash_eq() {
    let key: i64 = kani::any();
