use vstd::prelude::*;
verus! {
global size_of usize == 8;

#[derive(Structural, Clone, PartialEq, Hash, std::cmp::Eq, Debug, Copy)]
pub enum Role {
    Primary,
    Replica,
    Mirror,
}

// verbatim from config.rs (trait impl lifted)
fn role_eq_opt(this: &Role, other: &Option<Role>) -> (r: bool)
    ensures r == (match *other { None => true, Some(x) => x == *this })
{
        match other {
            None => true,
            Some(role) => *this == *role,
        }
}

pub struct PoolSettings { pub shards: usize, pub default_role: Option<Role>, pub query_parser_enabled: bool, pub primary_reads_enabled: bool }

pub struct QueryRouter {
    active_shard: Option<usize>,
    active_role: Option<Role>,
    query_parser_enabled: Option<bool>,
    primary_reads_enabled: Option<bool>,
    pool_settings: PoolSettings,
    placeholders: Vec<i16>,
}

impl QueryRouter {
    fn set_default_role(&mut self)
        ensures final(self).active_role == old(self).pool_settings.default_role,
    {
        self.active_role = self.pool_settings.default_role;
    }
    fn role(&self) -> (r: Option<Role>) ensures r == self.active_role {
        self.active_role
    }
    fn set_shard(&mut self, shard: Option<usize>)
      ensures final(self).active_shard == shard, final(self).active_role == old(self).active_role
    {
        self.active_shard = shard;
    }
    fn primary_reads_enabled(&self) -> (r: bool)
      ensures r == (match self.primary_reads_enabled { None => self.pool_settings.primary_reads_enabled, Some(v) => v })
    {
        match self.primary_reads_enabled {
            None => self.pool_settings.primary_reads_enabled,
            Some(value) => value,
        }
    }
}

#[derive(Copy, Clone)]
struct CleanupState {
    needs_cleanup_set: bool,
    needs_cleanup_prepare: bool,
}
impl CleanupState {
    fn needs_cleanup(&self) -> (r: bool) ensures r == (self.needs_cleanup_set || self.needs_cleanup_prepare) {
        self.needs_cleanup_set || self.needs_cleanup_prepare
    }
}
}
fn main(){}
