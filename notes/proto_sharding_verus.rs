use vstd::prelude::*;
verus! {
global size_of usize == 8;

pub const PARTITION_HASH_SEED: u64 = 0x7A5B22367996DCFD;

// ---------- spec: transcription of PostgreSQL hashfn.c / partbounds.c ----------
pub open spec fn u32w(x: int) -> u32 { if x > 0xffff_ffff { (x - 0x1_0000_0000) as u32 } else if x < 0 { (x + 0x1_0000_0000) as u32 } else { x as u32 } }
pub open spec fn u64w(x: int) -> u64 { if x > 0xffff_ffff_ffff_ffff { (x - 0x1_0000_0000_0000_0000) as u64 } else if x < 0 { (x + 0x1_0000_0000_0000_0000) as u64 } else { x as u64 } }
pub open spec fn pg_rot(x: u32, k: u32) -> u32 { (x << k) | (x >> ((32 - k) as u32)) }

pub struct ABC { pub a: u32, pub b: u32, pub c: u32 }

pub open spec fn pg_mix(s: ABC) -> ABC {
    let a = s.a; let b = s.b; let c = s.c;
    let a = a.wrapping_sub(c); let a = a ^ pg_rot(c, 4); let c = c.wrapping_add(b);
    let b = b.wrapping_sub(a); let b = b ^ pg_rot(a, 6); let a = a.wrapping_add(c);
    let c = c.wrapping_sub(b); let c = c ^ pg_rot(b, 8); let b = b.wrapping_add(a);
    let a = a.wrapping_sub(c); let a = a ^ pg_rot(c, 16); let c = c.wrapping_add(b);
    let b = b.wrapping_sub(a); let b = b ^ pg_rot(a, 19); let a = a.wrapping_add(c);
    let c = c.wrapping_sub(b); let c = c ^ pg_rot(b, 4); let b = b.wrapping_add(a);
    ABC { a, b, c }
}

pub open spec fn pg_final(s: ABC) -> ABC {
    let a = s.a; let b = s.b; let c = s.c;
    let c = c ^ b; let c = c.wrapping_sub(pg_rot(b, 14));
    let a = a ^ c; let a = a.wrapping_sub(pg_rot(c, 11));
    let b = b ^ a; let b = b.wrapping_sub(pg_rot(a, 25));
    let c = c ^ b; let c = c.wrapping_sub(pg_rot(b, 16));
    let a = a ^ c; let a = a.wrapping_sub(pg_rot(c, 4));
    let b = b ^ a; let b = b.wrapping_sub(pg_rot(a, 14));
    let c = c ^ b; let c = c.wrapping_sub(pg_rot(b, 24));
    ABC { a, b, c }
}

// hash_bytes_uint32_extended(k, seed) with seed = HASH_PARTITION_SEED (non-zero)
pub open spec fn pg_hash_uint32_extended(k: u32) -> u64 {
    let init: u32 = (0x9e3779b9int + 4 + 3923095) as u32;
    let s = pg_mix(ABC { a: init.wrapping_add(((PARTITION_HASH_SEED >> 32) as u32)), b: init.wrapping_add(PARTITION_HASH_SEED as u32), c: init });
    let f = pg_final(ABC { a: s.a.wrapping_add(k), b: s.b, c: s.c });
    ((f.b as u64) << 32) | (f.c as u64)
}

// hashint8extended
pub open spec fn pg_hashint8extended(val: i64) -> u64 {
    let lohalf: u32 = val as u32;
    let hihalf: u32 = (val >> 32) as u32;
    let lohalf = lohalf ^ (if val >= 0 { hihalf } else { !hihalf });
    pg_hash_uint32_extended(lohalf)
}

// hash_combine64
pub open spec fn pg_hash_combine64(a: u64, b: u64) -> u64 {
    a ^ b.wrapping_add(0x49a0f4dd15e5a8e3u64).wrapping_add(a << 54).wrapping_add(a >> 7)
}

// compute_partition_hash_value for one int8 key, then % modulus
pub open spec fn pg_partition(key: i64, modulus: nat) -> nat {
    (pg_hash_combine64(0, pg_hashint8extended(key)) as nat) % modulus
}

pub struct Sharder { pub shards: usize }

impl Sharder {
    fn pg_bigint_hash(&self, key: i64) -> (r: usize)
        requires self.shards > 0,
        ensures r as nat == pg_partition(key, self.shards as nat),
    {
        let mut lohalf = key as u32;
        let hihalf = (key >> 32) as u32;
        lohalf ^= if key >= 0 { hihalf } else { !hihalf };
        Self::combine(0, Self::pg_u32_hash(lohalf)) as usize % self.shards
    }

    #[inline]
    fn rot(x: u32, k: u32) -> (r: u32)
        requires 0 < k < 32,
        ensures r == pg_rot(x, k),
    {
        (x << k) | (x >> (32 - k))
    }

    #[inline]
    fn mix(mut a: u32, mut b: u32, mut c: u32) -> (r: (u32, u32, u32))
        ensures (ABC { a: r.0, b: r.1, c: r.2 }) == pg_mix(ABC { a, b, c }),
    {
        a = a.wrapping_sub(c);
        a ^= Self::rot(c, 4);
        c = c.wrapping_add(b);

        b = b.wrapping_sub(a);
        b ^= Self::rot(a, 6);
        a = a.wrapping_add(c);

        c = c.wrapping_sub(b);
        c ^= Self::rot(b, 8);
        b = b.wrapping_add(a);

        a = a.wrapping_sub(c);
        a ^= Self::rot(c, 16);
        c = c.wrapping_add(b);

        b = b.wrapping_sub(a);
        b ^= Self::rot(a, 19);
        a = a.wrapping_add(c);

        c = c.wrapping_sub(b);
        c ^= Self::rot(b, 4);
        b = b.wrapping_add(a);

        (a, b, c)
    }

    #[inline]
    fn _final(mut a: u32, mut b: u32, mut c: u32) -> (r: (u32, u32, u32))
        ensures (ABC { a: r.0, b: r.1, c: r.2 }) == pg_final(ABC { a, b, c }),
    {
        c ^= b;
        c = c.wrapping_sub(Self::rot(b, 14));
        a ^= c;
        a = a.wrapping_sub(Self::rot(c, 11));
        b ^= a;
        b = b.wrapping_sub(Self::rot(a, 25));
        c ^= b;
        c = c.wrapping_sub(Self::rot(b, 16));
        a ^= c;
        a = a.wrapping_sub(Self::rot(c, 4));
        b ^= a;
        b = b.wrapping_sub(Self::rot(a, 14));
        c ^= b;
        c = c.wrapping_sub(Self::rot(b, 24));
        (a, b, c)
    }

    #[inline]
    fn combine(mut a: u64, b: u64) -> (r: u64)
        ensures r == pg_hash_combine64(a, b),
    {
        a ^= b
            .wrapping_add(0x49a0f4dd15e5a8e3_u64)
            .wrapping_add(a << 54)
            .wrapping_add(a >> 7);
        a
    }

    #[inline]
    fn pg_u32_hash(k: u32) -> (r: u64)
        ensures r == pg_hash_uint32_extended(k),
    {
        let mut a: u32 = 0x9e3779b9_u32 + std::mem::size_of::<u32>() as u32 + 3923095_u32;
        let mut b = a;
        let c = a;

        a = a.wrapping_add((PARTITION_HASH_SEED >> 32) as u32);
        b = b.wrapping_add(PARTITION_HASH_SEED as u32);
        let (mut a, b, c) = Self::mix(a, b, c);

        a = a.wrapping_add(k);

        let (_a, b, c) = Self::_final(a, b, c);

        ((b as u64) << 32) | (c as u64)
    }
}

} // verus!
fn main() {}
