#!/bin/bash
# usage: seedall.sh [-j N] [seed-dir ...]   — for every seeded change: scratch worktree of /repo at the seed's base
# commit (meta.json "base", default HEAD), apply patch.diff, run ./check <property> against it (DV_REPO, own
# build directory DV_BUILD), print the verdict.  meta.json "also" = further properties the change violates.
# Development helper (not a registered check).  Worktrees and build directories are removed afterwards.
cd "$(dirname "$0")"
J=1; if [ "$1" = "-j" ]; then J=$2; shift 2; fi
one() {
  s=$1; d=seeded/$s
  PS=$(python3 -c "import json;m=json.load(open('$d/meta.json'));print(' '.join([m['property']]+m.get('also',[])))")
  BASE=$(python3 -c "import json;print(json.load(open('$d/meta.json')).get('base','HEAD'))")
  W=/tmp/seedwt_$s
  git -C /repo worktree remove --force $W >/dev/null 2>&1
  git -C /repo worktree add --detach $W $BASE >/dev/null 2>&1 || { echo "$s: cannot create worktree at $BASE"; return; }
  if git -C $W apply $PWD/$d/patch.diff 2>/dev/null; then
    for P in $PS; do
      out=$(DV_REPO=$W DV_BUILD=$PWD/build/seed_$s ./check $P 2>&1)
      v=$(echo "$out" | grep -c '^VIOLATION'); u=$(echo "$out" | grep -c '^UNDECIDED')
      echo "$s property=$P base=${BASE:0:7} violations=$v undecided=$u :: $(echo "$out" | grep '^VIOLATION' | sed 's/.*obligation=//' | tr '\n' ' ' | cut -c1-300) $(echo "$out" | grep '^UNDECIDED' | head -1 | cut -c1-300)"
    done
  else
    echo "$s: patch does not apply at $BASE"
  fi
  git -C /repo worktree remove --force $W >/dev/null 2>&1
  rm -rf build/seed_$s
}
export -f one
SEEDS=${@:-$(ls seeded)}
echo $SEEDS | tr ' ' '\n' | xargs -P $J -I{} bash -c 'one {}'
