#!/bin/bash
# usage: seedall.sh [seed-dir ...]   — for every seeded change: scratch worktree of /repo at the seed's base commit
# (meta.json "base", default HEAD), apply patch.diff, run ./check <property> against it (DV_REPO), print the verdict.
# Development helper (not a registered check).  Worktrees are removed afterwards.
cd "$(dirname "$0")"
SEEDS=${@:-$(ls seeded)}
for s in $SEEDS; do
  d=seeded/$s
  P=$(python3 -c "import json;print(json.load(open('$d/meta.json'))['property'])")
  BASE=$(python3 -c "import json;print(json.load(open('$d/meta.json')).get('base','HEAD'))")
  W=/tmp/seedwt_$s
  git -C /repo worktree remove --force $W >/dev/null 2>&1
  git -C /repo worktree add --detach $W $BASE >/dev/null 2>&1 || { echo "$s: cannot create worktree at $BASE"; continue; }
  if git -C $W apply $PWD/$d/patch.diff 2>/dev/null; then
    out=$(DV_REPO=$W ./check $P 2>&1)
    v=$(echo "$out" | grep -c '^VIOLATION'); u=$(echo "$out" | grep -c '^UNDECIDED')
    echo "$s property=$P base=$BASE violations=$v undecided=$u :: $(echo "$out" | grep '^VIOLATION' | sed 's/.*obligation=//' | tr '\n' ' ' | cut -c1-300)"
  else
    echo "$s property=$P base=$BASE: patch does not apply"
  fi
  git -C /repo worktree remove --force $W >/dev/null 2>&1
done
