#!/bin/bash
# usage: seedconfirm.sh <PROP> <worktree> <a|b> <dest-name>  — confirm a sub-agent's seeded change myself
# (demo fails with the change, passes without, full suite unchanged with the change alone), then keep it in seeded/<dest-name>/
P=$1; W=$2; X=$3; D=$4
S=$W/seed_$X
[ -f $S/patch.diff ] || { echo "$D: no patch"; exit 1; }
F=$(python3 -c "import json;print(json.load(open('$S/meta.json'))['demo_test_filter'])")
cd $W && git checkout -q -- . && git clean -fdq src
export CARGO_TARGET_DIR=$W/target RUST_BACKTRACE=0
git apply $S/patch.diff $S/demo.diff || { echo "$D: patch+demo do not apply"; exit 1; }
WITH=$(cargo test --offline --lib $F 2>&1 | grep -E "^test result" | head -1)
git checkout -q -- . && git clean -fdq src
git apply $S/demo.diff || { echo "$D: demo does not apply alone"; exit 1; }
WITHOUT=$(cargo test --offline --lib $F 2>&1 | grep -E "^test result" | head -1)
git checkout -q -- . && git clean -fdq src
git apply $S/patch.diff
ALONE=$(cargo test --offline --lib 2>&1 | grep -E "^test result" | head -1)
FAILED=$(cargo test --offline --lib 2>&1 | grep -E "^test .* FAILED" | sort | tr '\n' ' ')
git checkout -q -- . && git clean -fdq src
BASE=$(git rev-parse HEAD)
echo "$D | with: $WITH | without: $WITHOUT | alone: $ALONE | failing alone: $FAILED"
case "$WITH" in *FAILED*) ;; *) echo "$D: NOT CONFIRMED (demo does not fail with the change)"; exit 1;; esac
case "$WITHOUT" in *"ok."*) ;; *) echo "$D: NOT CONFIRMED (demo does not pass without the change)"; exit 1;; esac
mkdir -p /verif/seeded/$D && cp $S/patch.diff $S/demo.diff /verif/seeded/$D/
python3 - "$S/meta.json" "/verif/seeded/$D/meta.json" "$BASE" "$P filter=$F | with change: $WITH | without: $WITHOUT | patch alone full suite: $ALONE ($FAILED)" <<'PY'
import json,sys
m=json.load(open(sys.argv[1])); m['base']=sys.argv[3]; m['confirmed_by_me']=sys.argv[4]
json.dump(m,open(sys.argv[2],'w'),indent=1)
PY
