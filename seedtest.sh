#!/bin/bash
# usage: seedtest.sh <PROP> <worktree> <test filter>  — confirm a seeded change (demo fails with it, passes without), then run ./check PROP against /repo with the patch applied
P=$1; W=$2; F=$3
cd $W && git checkout -q -- . && git apply seed/patch.diff seed/demo.diff && echo "--- with change:" && (CARGO_TARGET_DIR=$W/target cargo test --offline --lib $F 2>&1 | grep -E "^test result|panicked|FAILED" | head -5)
git checkout -q -- . && git apply seed/demo.diff && echo "--- without change:" && (CARGO_TARGET_DIR=$W/target cargo test --offline --lib $F 2>&1 | grep -E "^test result" | head -3)
git checkout -q -- .
D=${4:-$P-agent}; mkdir -p /verif/seeded/$D && cp seed/patch.diff seed/demo.diff seed/meta.json /verif/seeded/$D/ 2>/dev/null
cd /verif && git -C /repo apply $W/seed/patch.diff && echo "--- check on mutated /repo:" && (./check $P 2>&1 | grep -E "VIOLATION|UNDECIDED|tier=" | cut -c1-260 | head -8); git -C /repo checkout -- . ; git -C /repo status --short | head -3
