#!/bin/sh
# usage: selftest.sh <PROP> <sed-expr> <file-in-repo>   — applies a mutation to /repo, runs the check, restores /repo
P=$1; E=$2; F=$3
cp /repo/$F /tmp/dv_selftest_backup.$$ || exit 9
sed -i "$E" /repo/$F
if cmp -s /repo/$F /tmp/dv_selftest_backup.$$; then echo "MUTATION DID NOT APPLY"; fi
./check $P; rc=$?
cp /tmp/dv_selftest_backup.$$ /repo/$F; rm -f /tmp/dv_selftest_backup.$$
git -C /repo status --short | head -3
echo "selftest rc=$rc"
