#!/usr/bin/env python3
"""experiment helper: xp.py <unit> <harness> [timeout]  — render unit's kani template into build/X_<unit> and run one harness"""
import sys, os, time, subprocess, re, resource
resource.setrlimit(resource.RLIMIT_STACK, (resource.RLIM_INFINITY, resource.RLIM_INFINITY))
sys.path.insert(0, '/verif')
from dv import engine, render
unit, h = sys.argv[1], sys.argv[2]
tmo = int(sys.argv[3]) if len(sys.argv) > 3 else 200
u = [x for x in engine.load_units() if x['name'] == unit][0]
ex = render.Extraction(engine.REPO)
bdir = '/verif/build/X_' + unit
engine.write_kani_crate(u, u['kani'], bdir, ex)
env = dict(os.environ, CARGO_NET_OFFLINE='true')
t = time.time()
cmd = engine.KANI_BASE + ['--harness', 'proofs::' + h, '--exact'] + u['kani'].get('kani_flags', [])
# own process group, so that a timeout kills only this experiment's cbmc (never `pkill cbmc`: it kills
# the solvers of every check running at the same time, which then report UNDECIDED)
rc, o, e, wall, to = engine.sh(cmd, cwd=bdir, env=env, timeout=tmo)
out = o + e + ('\nTIMEOUT' if to else '')
keep = [l for l in out.splitlines() if re.search(r'^VERIFICATION|^error|Verification Time|TIMEOUT|Failed Checks|^ \*\* |File:|^SUMMARY', l)]
print('\n'.join(keep[:40]))
print('wall %.1fs' % (time.time() - t))
